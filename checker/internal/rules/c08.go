package rules

import (
	"go/ast"
	"go/constant"
	"go/token"
	"go/types"
	"sort"
	"strconv"
	"strings"

	"golang.org/x/tools/go/packages"

	"seatalint/internal/core"
	"seatalint/internal/flow"
)

func init() { register("C08", checkC08) }

const (
	pUndoBase   = core.Module + "/pkg/datasource/sql/undo/base"
	pUndoParser = core.Module + "/pkg/datasource/sql/undo/parser"
	pCompressor = core.Module + "/pkg/compressor"
)

// caseTable extracts, from the first switch statement of fn whose case labels satisfy accept, a map
// label -> case clause. Labels are rendered by label(e) ("" to skip).
func caseTable(fn *core.FuncInfo, label func(e ast.Expr) string) (map[string]*ast.CaseClause, *ast.CaseClause) {
	out := map[string]*ast.CaseClause{}
	var def *ast.CaseClause
	ast.Inspect(fn.Decl.Body, func(n ast.Node) bool {
		sw, ok := n.(*ast.SwitchStmt)
		if !ok {
			return true
		}
		tmp := map[string]*ast.CaseClause{}
		var d *ast.CaseClause
		for i, c := range sw.Body.List {
			cc := c.(*ast.CaseClause)
			if cc.List == nil {
				d = cc
			}
			// a clause that only falls through is the clause it falls into
			target := cc
			for j := i; j+1 < len(sw.Body.List); j++ {
				cj := sw.Body.List[j].(*ast.CaseClause)
				if len(cj.Body) != 1 {
					break
				}
				if bs, isBr := cj.Body[0].(*ast.BranchStmt); !isBr || bs.Tok != token.FALLTHROUGH {
					break
				}
				target = sw.Body.List[j+1].(*ast.CaseClause)
			}
			for _, e := range cc.List {
				if l := label(e); l != "" {
					tmp[l] = target
				}
			}
		}
		if len(tmp) > len(out) {
			out, def = tmp, d
		}
		return true
	})
	return out, def
}

// dispatchTable generalises caseTable: the table of a function that maps a key to a result, written as a switch
// over the key or as a lookup in a map (package-level variable or local literal) followed by a fall-back return:
//
//	if v, ok := table[key]; ok { return v() }     // or: return v
//	return <default>
//
// Entries and default are returned as syntax nodes (a case clause, a map value expression, a return statement).
func dispatchTable(w *core.World, fn *core.FuncInfo, label func(e ast.Expr) string) (map[string]ast.Node, ast.Node) {
	tab, def := caseTable(fn, label)
	if len(tab) > 0 {
		out := map[string]ast.Node{}
		for k, v := range tab {
			out[k] = v
		}
		if def != nil {
			return out, def
		}
		return out, nil
	}
	// keys singled out by an equality guard before the lookup (`if key == K { ... }`) are entries of their own
	guards := map[string]ast.Node{}
	for _, st := range fn.Decl.Body.List {
		is, ok := st.(*ast.IfStmt)
		if !ok || is.Else != nil {
			continue
		}
		be, ok := ast.Unparen(is.Cond).(*ast.BinaryExpr)
		if !ok || be.Op != token.EQL {
			continue
		}
		if l := label(be.Y); l != "" {
			guards[l] = is.Body
		} else if l := label(be.X); l != "" {
			guards[l] = is.Body
		}
	}
	out, dflt := lookupTable(w, fn, label)
	for k, v := range guards {
		if _, has := out[k]; !has {
			out[k] = v
		}
	}
	return out, dflt
}

func lookupTable(w *core.World, fn *core.FuncInfo, label func(e ast.Expr) string) (map[string]ast.Node, ast.Node) {
	info := fn.Pkg.TypesInfo
	var lit *ast.CompositeLit
	litPkg := fn.Pkg
	ast.Inspect(fn.Decl.Body, func(n ast.Node) bool {
		ix, ok := n.(*ast.IndexExpr)
		if !ok || lit != nil {
			return true
		}
		t := info.TypeOf(ix.X)
		if t == nil {
			return true
		}
		if _, isMap := t.Underlying().(*types.Map); !isMap {
			return true
		}
		switch x := ast.Unparen(ix.X).(type) {
		case *ast.CompositeLit:
			lit = x
		case *ast.Ident, *ast.SelectorExpr:
			var v *types.Var
			if id, ok := x.(*ast.Ident); ok {
				v, _ = info.Uses[id].(*types.Var)
			} else {
				v, _ = info.Uses[x.(*ast.SelectorExpr).Sel].(*types.Var)
			}
			if v == nil {
				return true
			}
			if v.Pkg() != nil && v.Parent() == v.Pkg().Scope() {
				if _, mutated := runtimeMutatedGlobals(w)[v]; mutated {
					return true
				}
				for _, p := range w.ByPath {
					if p.Types != v.Pkg() {
						continue
					}
					for _, file := range p.Syntax {
						for _, d := range file.Decls {
							gd, isGen := d.(*ast.GenDecl)
							if !isGen {
								continue
							}
							for _, sp := range gd.Specs {
								vs, isVS := sp.(*ast.ValueSpec)
								if !isVS {
									continue
								}
								for i, nm := range vs.Names {
									if p.TypesInfo.Defs[nm] == v && i < len(vs.Values) {
										if cl, ok := ast.Unparen(vs.Values[i]).(*ast.CompositeLit); ok {
											lit, litPkg = cl, p
										}
									}
								}
							}
						}
					}
				}
			} else if defs := localDefs(fn, v); len(defs) == 1 {
				if cl, ok := ast.Unparen(defs[0].rhs).(*ast.CompositeLit); ok {
					lit = cl
				}
			}
		}
		return true
	})
	if lit == nil {
		return map[string]ast.Node{}, nil
	}
	_ = litPkg
	out := map[string]ast.Node{}
	for _, el := range lit.Elts {
		kv, ok := el.(*ast.KeyValueExpr)
		if !ok {
			continue
		}
		if l := label(kv.Key); l != "" {
			out[l] = kv.Value
		}
	}
	var dflt ast.Node
	if n := len(fn.Decl.Body.List); n > 0 {
		if rs, ok := fn.Decl.Body.List[n-1].(*ast.ReturnStmt); ok {
			dflt = rs
		}
	}
	return out, dflt
}

func strLabel(info *types.Info) func(ast.Expr) string {
	return func(e ast.Expr) string {
		if v := core.ConstVal(info, e); v != nil && v.Kind() == constant.String {
			return constant.StringVal(v)
		}
		return ""
	}
}

func constLabel(info *types.Info, typeName string) func(ast.Expr) string {
	return func(e ast.Expr) string {
		if c := core.ConstObj(info, e); c != nil {
			if nt, ok := c.Type().(*types.Named); ok && nt.Obj().Name() == typeName {
				return c.Name()
			}
		}
		// package-level variables used as enum members (e.g. the MySQL FIELD_TYPE_* codes)
		if v, ok := core.ObjOf(info, e).(*types.Var); ok && v.Pkg() != nil && v.Parent() == v.Pkg().Scope() {
			if nt, ok := v.Type().(*types.Named); ok && nt.Obj().Name() == typeName {
				return v.Name()
			}
		}
		return ""
	}
}

// jdbcOf evaluates MySQLStrToJavaType ∘ MySQLCodeToJava for each type string (constant evaluation over the two switches).
func jdbcOf(w *core.World) (map[string]string, bool) {
	s2j := w.Func("pkg/datasource/sql/types", "", "MySQLStrToJavaType")
	c2j := w.Func("pkg/datasource/sql/types", "", "MySQLCodeToJava")
	if s2j == nil || c2j == nil {
		return nil, false
	}
	info := s2j.Pkg.TypesInfo
	codeTab, codeDef := caseTable(c2j, constLabel(info, "MySQLDefCode"))
	jdbcInClause := func(cc *ast.CaseClause) string {
		out := ""
		ast.Inspect(cc, func(n ast.Node) bool {
			if e, ok := n.(ast.Expr); ok {
				if c := core.ConstObj(info, e); c != nil {
					if nt, ok := c.Type().(*types.Named); ok && nt.Obj().Name() == "JDBCType" {
						out = c.Name()
					}
				}
			}
			return true
		})
		return out
	}
	strTab, _ := caseTable(s2j, strLabel(info))
	res := map[string]string{}
	for s, cc := range strTab {
		j := ""
		// return MySQLCodeToJava(FIELD_X) or return JDBCTypeX
		ast.Inspect(cc, func(n ast.Node) bool {
			if call, ok := n.(*ast.CallExpr); ok && core.Callee(info, call) == c2j.Obj && len(call.Args) == 1 {
				if name := constLabel(info, "MySQLDefCode")(call.Args[0]); name != "" {
					if cl, ok := codeTab[name]; ok {
						j = jdbcInClause(cl)
					} else if codeDef != nil {
						j = jdbcInClause(codeDef)
					}
				}
				return false
			}
			return true
		})
		if j == "" {
			j = jdbcInClause(cc)
		}
		res[s] = j
	}
	return res, len(res) > 0
}

// scanKinds: Go kind the row scanner produces per type string (AT baseExecutor.GetScanSlice).
func scanKinds(w *core.World) (map[string]string, string, *core.FuncInfo) {
	var fn *core.FuncInfo
	for _, f := range w.SortedFuncs() {
		if f.Pkg.PkgPath == pExecAT && f.Obj.Name() == "GetScanSlice" && !w.IsTestFile(f.Decl.Pos()) {
			if rn := core.RecvNamed(f.Obj); rn != nil && rn.Obj().Name() == "baseExecutor" {
				fn = f
			}
		}
	}
	if fn == nil {
		return nil, "", nil
	}
	info := fn.Pkg.TypesInfo
	kindOf := func(cc *ast.CaseClause) string {
		kinds := map[string]bool{}
		ast.Inspect(cc, func(n ast.Node) bool {
			switch x := n.(type) {
			case *ast.ValueSpec:
				for _, nm := range x.Names {
					if nm.Name == "scanVal" {
						kinds[scanValKind(info.TypeOf(nm))] = true
					}
				}
			case *ast.AssignStmt:
				if x.Tok == token.DEFINE {
					for _, l := range x.Lhs {
						if id, ok := l.(*ast.Ident); ok && id.Name == "scanVal" {
							kinds[scanValKind(info.TypeOf(id))] = true
						}
					}
				}
			}
			return true
		})
		var ks []string
		for k := range kinds {
			ks = append(ks, k)
		}
		sort.Strings(ks)
		return strings.Join(ks, "|")
	}
	tab, def := caseTable(fn, strLabel(info))
	out := map[string]string{}
	for s, cc := range tab {
		out[s] = kindOf(cc)
	}
	d := ""
	if def != nil {
		d = kindOf(def)
	}
	return out, d, fn
}

// scanValKind maps the scan variable's type to the Go kind stored in the image (after the Null* unwrapping).
func scanValKind(t types.Type) string {
	if t == nil {
		return "?"
	}
	switch t.String() {
	case "database/sql.NullString", "string":
		return "string"
	case "database/sql.NullInt64", "int64", "database/sql.NullInt32", "database/sql.NullInt16", "int32", "int16", "int8", "int":
		return "int64"
	case "database/sql.NullFloat64", "float64":
		return "float64"
	case "float32":
		return "float32"
	case "database/sql.NullTime", "time.Time":
		return "time"
	case "database/sql.NullBool", "bool":
		return "bool"
	case "database/sql.RawBytes", "[]byte", "[]uint8":
		return "bytes"
	}
	return t.String()
}

// withCallees: fn and the functions of its package it calls statically, depth levels down (fn first)
func withCallees(w *core.World, fn *core.FuncInfo, depth int) []*core.FuncInfo {
	out := []*core.FuncInfo{fn}
	seen := map[*core.FuncInfo]bool{fn: true}
	frontier := []*core.FuncInfo{fn}
	for d := 0; d < depth; d++ {
		var next []*core.FuncInfo
		for _, f := range frontier {
			for _, cs := range w.Calls(f) {
				if h := w.Info(cs.Static); h != nil && h.Pkg == fn.Pkg && h.Decl.Body != nil && !seen[h] {
					seen[h] = true
					out = append(out, h)
					next = append(next, h)
				}
			}
		}
		frontier = next
	}
	return out
}

// readerCase describes what ColumnImage.UnmarshalJSON does for one JDBC code.
type readerCase struct {
	asserts   []string // asserted dynamic types
	base64    bool     // base64-decodes
	timeParse string   // layout constant
	passthru  bool
	conv      string // integer conversion target
}

func readerTable(w *core.World) (map[string]*readerCase, *core.FuncInfo) {
	ci := w.NamedType("pkg/datasource/sql/types", "ColumnImage")
	fn := methodInfo(w, ci, "UnmarshalJSON")
	if fn == nil {
		return nil, nil
	}
	info := fn.Pkg.TypesInfo
	// the switch over the column type: in UnmarshalJSON itself or in the decoding helper it hands the value to
	tab, _ := caseTable(fn, constLabel(info, "JDBCType"))
	tabFn := fn
	for _, g := range withCallees(w, fn, 2)[1:] {
		if t2, _ := caseTable(g, constLabel(info, "JDBCType")); len(t2) > len(tab) {
			tab, tabFn = t2, g
		}
	}
	out := map[string]*readerCase{}
	for code, cc := range tab {
		rc := &readerCase{}
		// what the case does, including per-kind helpers of the package it returns through
		nodes := []ast.Node{cc}
		ast.Inspect(cc, func(n ast.Node) bool {
			if c, ok := n.(*ast.CallExpr); ok {
				if h := w.Info(core.Callee(info, c)); h != nil && h.Pkg == fn.Pkg && h != tabFn && h != fn && h.Decl.Body != nil {
					nodes = append(nodes, h.Decl.Body)
					// the helper hands its parameter through: `return value` there is the pass-through
					ast.Inspect(h.Decl.Body, func(m ast.Node) bool {
						if rs, ok := m.(*ast.ReturnStmt); ok && len(rs.Results) >= 1 {
							if id, ok := ast.Unparen(rs.Results[0]).(*ast.Ident); ok {
								for _, p := range paramObjs(h) {
									if info.Uses[id] == p {
										rc.passthru = true
									}
								}
							}
						}
						return true
					})
				}
			}
			return true
		})
		// `s, ok := v.(T)` tests, it does not assert
		commaOk := map[*ast.TypeAssertExpr]bool{}
		for _, root := range nodes {
			ast.Inspect(root, func(n ast.Node) bool {
				if as, ok := n.(*ast.AssignStmt); ok && len(as.Lhs) == 2 && len(as.Rhs) == 1 {
					if ta, ok := ast.Unparen(as.Rhs[0]).(*ast.TypeAssertExpr); ok {
						commaOk[ta] = true
					}
				}
				return true
			})
		}
		for _, root := range nodes {
			ast.Inspect(root, func(n ast.Node) bool {
				switch x := n.(type) {
				case *ast.TypeAssertExpr:
					if x.Type != nil && !commaOk[x] {
						rc.asserts = append(rc.asserts, core.ExprString(x.Type))
					}
				case *ast.CallExpr:
					f := core.Callee(info, x)
					if f != nil && f.Pkg() != nil {
						if f.Pkg().Path() == "encoding/base64" && strings.HasPrefix(f.Name(), "Decode") {
							rc.base64 = true
						}
						if f.Pkg().Path() == "time" && f.Name() == "Parse" && len(x.Args) == 2 {
							if c := core.ConstObj(info, x.Args[0]); c != nil {
								rc.timeParse = c.Name()
							}
						}
					}
					if tv, ok := info.Types[x.Fun]; ok && tv.IsType() {
						rc.conv = tv.Type.String()
					}
				case *ast.AssignStmt:
					if len(x.Rhs) == 1 {
						if id, ok := x.Rhs[0].(*ast.Ident); ok && (id.Name == "value" || decodedValueVar(tabFn, info.Uses[id])) {
							rc.passthru = true
						}
					}
				case *ast.ReturnStmt:
					// `return value, nil` in the case itself: the decoded JSON value as it is
					if root == ast.Node(cc) && len(x.Results) >= 1 {
						if id, ok := ast.Unparen(x.Results[0]).(*ast.Ident); ok {
							for _, p := range paramObjs(tabFn) {
								if info.Uses[id] == p {
									rc.passthru = true
								}
							}
						}
					}
				}
				return true
			})
		}
		rc.asserts = uniq(rc.asserts)
		out[code] = rc
	}
	return out, fn
}

func checkC08(r *core.Run) {
	r.Explain = "Decided statically by table extraction and constant evaluation: (C08.codes) every JDBC code the image builder can emit (MySQLStrToJavaType ∘ MySQLCodeToJava over its type strings, minus JDBCTypeOther) has a case in ColumnImage.UnmarshalJSON; (C08.kinds) per type string the Go kind produced by the row scanner, the JSON shape encoding/json gives it (time.Time special-cased by MarshalJSON) and what the reader's case asserts and undoes agree: no assertion on a dynamic type encoding/json never produces, no reader transform without its inverse on the writer side or vice versa, no 64-bit integer decoded through float64; every layout the writer formats a time.Time with has a zone designator (the reader parses with one of the writer's layouts); (C08.pair) Compress is reached from the flush path iff Decompress is reached from the undo path, under the same context key constant; the serializer name is written and read under one key; every UndoLogParser.Decode restores kinds by type code; (C08.registry) each compressor's GetCompressorType equals the case label returning it, unknown spellings map to the identity compressor; (C08.nopanic) the parser used on the decode path is assigned on every path before its Decode is called. (C08.pure) compressors, serializers and the column (un)marshalling consult no package-level state that request paths mutate — an output buffer taken from a pool and put back while its bytes are still referenced belongs here; (C08.stream) in every Compressor implementation a stream writer wrapped around the output buffer is closed (not merely deferred) before the buffer's bytes are taken, and Compress returns its input unchanged on some path only if Decompress returns its input unchanged on every path. NOT decided: the actual value round trip, the compression libraries, thresholds."
	r.Explain += " Round 8: (C08.kinds, also) the protobuf writer's value wrapper answers a non-nil Any on every non-error exit — a NULL is written as a value, not left out."
	r.Trusted = []string{"go/types", "encoding/json's mapping of Go kinds to JSON and back into interface{} (bool, float64, string, []interface{}, map[string]interface{})", "compression libraries"}
	w := r.W
	jd, ok := jdbcOf(w)
	rt, rfn := readerTable(w)
	sk, skDefault, sfn := scanKinds(w)
	if !ok || rt == nil || sk == nil {
		r.Anchor("C08.anchor", nil, "MySQLStrToJavaType/MySQLCodeToJava, ColumnImage.UnmarshalJSON, baseExecutor.GetScanSlice")
		return
	}
	r.Fn(rfn)
	r.Fn(sfn)
	// the MarshalJSON special case for time.Time and its layout
	writerTimeLayout := ""
	writerLayouts := map[string]string{} // constant name -> layout text (one per column kind the writer tells apart)
	if mfn := methodInfo(w, w.NamedType("pkg/datasource/sql/types", "ColumnImage"), "MarshalJSON"); mfn != nil {
		r.Fn(mfn)
		for _, g := range withCallees(w, mfn, 2) {
			ast.Inspect(g.Decl.Body, func(n ast.Node) bool {
				if c, ok := n.(*ast.CallExpr); ok {
					if f := core.Callee(mfn.Pkg.TypesInfo, c); f != nil && f.Name() == "Format" && core.RecvNamed(f) != nil && core.RecvNamed(f).Obj().Name() == "Time" && len(c.Args) == 1 {
						if k := core.ConstObj(mfn.Pkg.TypesInfo, c.Args[0]); k != nil {
							writerTimeLayout = k.Name()
							writerLayouts[k.Name()] = constant.StringVal(k.Val())
						}
					}
				}
				return true
			})
		}
	}
	// the domain: DATA_TYPE values MySQL's information_schema reports (the table-meta loader's source of
	// ColumnMeta.DatabaseTypeString); spellings such as INTEGER, NUMERIC, REAL never appear there
	mysqlDataTypes := []string{"BIT", "TINYINT", "SMALLINT", "MEDIUMINT", "INT", "BIGINT", "FLOAT", "DOUBLE", "DECIMAL", "CHAR", "VARCHAR",
		"TINYTEXT", "TEXT", "MEDIUMTEXT", "LONGTEXT", "BINARY", "VARBINARY", "TINYBLOB", "BLOB", "MEDIUMBLOB", "LONGBLOB",
		"DATE", "TIME", "YEAR", "DATETIME", "TIMESTAMP", "ENUM", "SET", "JSON", "GEOMETRY"}
	var strs []string
	for _, s := range mysqlDataTypes {
		if _, ok := jd[s]; ok {
			strs = append(strs, s)
		} else {
			r.Bad("C08.codes", "type "+s+" is known to the image builder", w.Pos(rfn.Decl.Pos()), "MySQLStrToJavaType has no case for the MySQL data type "+s)
		}
	}
	sort.Strings(strs)
	// JDBC codes whose string values the writer turns into []byte (and therefore base64) in MarshalJSON
	textEncoded := map[string]bool{}
	if mfn := methodInfo(w, w.NamedType("pkg/datasource/sql/types", "ColumnImage"), "MarshalJSON"); mfn != nil {
		minfo := mfn.Pkg.TypesInfo
		ast.Inspect(mfn.Decl.Body, func(n ast.Node) bool {
			cc, ok := n.(*ast.CaseClause)
			if !ok {
				return true
			}
			// the conversion must be unconditional inside the case: text written as []byte only for *some* values
			// (say, those that "look like base64") leaves the rest to be base64-decoded by the reader all the same
			conv := false
			for _, st := range cc.Body {
				as, ok := st.(*ast.AssignStmt)
				if !ok {
					continue
				}
				for _, rh := range as.Rhs {
					if c, ok := ast.Unparen(rh).(*ast.CallExpr); ok {
						if tv, ok := minfo.Types[c.Fun]; ok && tv.IsType() && tv.Type.String() == "[]byte" {
							conv = true
						}
					}
				}
			}
			if conv {
				for _, e := range cc.List {
					if c := core.ConstObj(minfo, e); c != nil {
						textEncoded[c.Name()] = true
					}
				}
			}
			return true
		})
	}
	// the same, written as `if isText(c.ColumnType) { ... []byte(v) }` with a predicate of the package whose switch
	// answers true for the text codes (in MarshalJSON or a helper it calls)
	if mfn := methodInfo(w, w.NamedType("pkg/datasource/sql/types", "ColumnImage"), "MarshalJSON"); mfn != nil {
		minfo := mfn.Pkg.TypesInfo
		for _, g := range withCallees(w, mfn, 2) {
			ast.Inspect(g.Decl.Body, func(n ast.Node) bool {
				is, ok := n.(*ast.IfStmt)
				if !ok {
					return true
				}
				pc, ok := ast.Unparen(is.Cond).(*ast.CallExpr)
				if !ok {
					return true
				}
				pred := w.Info(core.Callee(minfo, pc))
				if pred == nil || pred.Pkg != mfn.Pkg || pred.Decl.Body == nil {
					return true
				}
				// the conversion is a statement of the if body itself (unconditional there)
				conv := false
				for _, st := range is.Body.List {
					var exprs []ast.Expr
					switch y := st.(type) {
					case *ast.AssignStmt:
						exprs = y.Rhs
					case *ast.ReturnStmt:
						exprs = y.Results
					}
					for _, e := range exprs {
						if c, ok := ast.Unparen(e).(*ast.CallExpr); ok {
							if tv, ok := minfo.Types[c.Fun]; ok && tv.IsType() && tv.Type.String() == "[]byte" {
								conv = true
							}
						}
					}
				}
				if !conv {
					return true
				}
				ast.Inspect(pred.Decl.Body, func(m ast.Node) bool {
					cc, ok := m.(*ast.CaseClause)
					if !ok || len(cc.Body) != 1 {
						return true
					}
					rs, ok := cc.Body[0].(*ast.ReturnStmt)
					if !ok || len(rs.Results) != 1 {
						return true
					}
					if v := core.ConstVal(minfo, rs.Results[0]); v == nil || v.Kind() != constant.Bool || !constant.BoolVal(v) {
						return true
					}
					for _, e := range cc.List {
						if c := core.ConstObj(minfo, e); c != nil {
							textEncoded[c.Name()] = true
						}
					}
					return true
				})
				return true
			})
		}
	}
	// the same, written as `if c.ColumnType == A || c.ColumnType == B { .. []byte(s) }`
	if mfn := methodInfo(w, w.NamedType("pkg/datasource/sql/types", "ColumnImage"), "MarshalJSON"); mfn != nil {
		for _, g := range withCallees(w, mfn, 2) {
			ginfo := g.Pkg.TypesInfo
			ast.Inspect(g.Decl.Body, func(n ast.Node) bool {
				is, ok := n.(*ast.IfStmt)
				if !ok {
					return true
				}
				var codes []string
				okChain := true
				var walk func(e ast.Expr)
				walk = func(e ast.Expr) {
					be, isBin := ast.Unparen(e).(*ast.BinaryExpr)
					switch {
					case isBin && be.Op == token.LOR:
						walk(be.X)
						walk(be.Y)
					case isBin && be.Op == token.EQL:
						sel, isSel := ast.Unparen(be.X).(*ast.SelectorExpr)
						c := core.ConstObj(ginfo, be.Y)
						if isSel && sel.Sel.Name == "ColumnType" && c != nil {
							codes = append(codes, c.Name())
						} else {
							okChain = false
						}
					default:
						okChain = false
					}
				}
				walk(is.Cond)
				if !okChain || len(codes) == 0 {
					return true
				}
				for _, st := range is.Body.List {
					if as, ok := st.(*ast.AssignStmt); ok {
						for _, rh := range as.Rhs {
							if c, ok := ast.Unparen(rh).(*ast.CallExpr); ok {
								if tv, ok := ginfo.Types[c.Fun]; ok && tv.IsType() && tv.Type.String() == "[]byte" {
									for _, code := range codes {
										textEncoded[code] = true
									}
								}
							}
						}
					}
				}
				return true
			})
		}
	}
	jsonProduces := map[string]bool{"bool": true, "float64": true, "string": true, "[]interface{}": true, "map[string]interface{}": true, "[]any": true, "map[string]any": true}
	for _, s := range strs {
		code := jd[s]
		if code == "" || code == "JDBCTypeOther" {
			continue
		}
		r.Sites++
		rc := rt[code]
		pos := w.Pos(rfn.Decl.Pos())
		if !r.Check(rc != nil, "C08.codes", "type "+s+" -> "+code+" has a reader case", pos, "reader handles "+code, "the image builder emits "+code+" for "+s+" columns but ColumnImage.UnmarshalJSON has no case for it: the value is dropped (nil) on rollback") {
			continue
		}
		kind, known := sk[s]
		if !known {
			kind = skDefault
		}
		key := "type " + s + " (" + code + ", scanned as " + kind + ")"
		// impossible assertions
		for _, a := range rc.asserts {
			r.Check(jsonProduces[a], "C08.kinds", key+" : reader asserts "+a, pos, "encoding/json can produce "+a, "the reader asserts value.("+a+"), a dynamic type encoding/json never produces when decoding into interface{}: every rollback of such a column panics")
		}
		for _, k := range strings.Split(kind, "|") {
			shape := map[string]string{"string": "string", "int64": "number", "float64": "number", "float32": "number", "time": "time-string", "bytes": "base64-string", "bool": "bool"}[k]
			kk := key + " [" + k + "]"
			if k == "string" && textEncoded[code] {
				shape = "base64-string" // the writer converts text of this code to []byte before encoding
			}
			switch shape {
			case "string":
				r.Check(!rc.base64, "C08.kinds", kk+" : text is not base64-decoded", pos, "text stored as text, read as text", "text columns are written as plain JSON strings but the reader base64-decodes them: any value that happens to be valid base64 (e.g. \"test\") comes back as different bytes")
				r.Check(inSet("string", rc.asserts...) || rc.passthru, "C08.kinds", kk+" : reader expects a string", pos, "string read as string", "a string is written but the reader asserts "+strings.Join(rc.asserts, ","))
			case "base64-string":
				r.Check(rc.base64, "C08.kinds", kk+" : bytes are base64-decoded", pos, "[]byte written as base64 and decoded by the reader", "[]byte values are written by encoding/json as base64 text but the reader does not decode them: binary columns come back as their base64 text")
			case "number":
				if k == "int64" && (code == "JDBCTypeBigInt") {
					r.Check(!inSet("float64", rc.asserts...), "C08.kinds", kk+" : 64-bit integer not decoded through float64", pos, "exact decoding", "a 64-bit integer is decoded through float64 (53-bit mantissa): values beyond 2^53 are restored wrongly")
				} else {
					r.Check(inSet("float64", rc.asserts...) || rc.passthru, "C08.kinds", kk+" : reader expects a JSON number", pos, "number read via float64", "a number is written but the reader asserts "+strings.Join(rc.asserts, ","))
				}
			case "time-string":
				_, written := writerLayouts[rc.timeParse]
				r.Check(rc.timeParse != "" && (rc.timeParse == writerTimeLayout || written), "C08.kinds", kk+" : time layout agrees", pos, "written and parsed with "+writerTimeLayout, "time values are written with layout "+writerTimeLayout+" but read with '"+rc.timeParse+"'")
				// a time.Time names an instant and a location; a layout without a zone designator writes the wall
				// clock only and time.Parse reads it back as UTC: another instant unless the connection runs in UTC
				zoneless := ""
				for name, text := range writerLayouts {
					if !strings.Contains(text, "Z07") && !strings.Contains(text, "-07") && !strings.Contains(text, "MST") {
						zoneless = name + " = " + strconv.Quote(text)
					}
				}
				r.Check(zoneless == "", "C08.kinds", kk+" : the written time keeps its zone offset", pos, "every layout the writer uses has a zone designator",
					"the layout "+zoneless+" has no zone designator: a value read with a connection location other than UTC is restored as midnight / the same wall clock in UTC — another instant, which the rollback's comparison takes for a foreign write (or writes back shifted)")
			case "bool":
				r.Check(rc.passthru || inSet("bool", rc.asserts...), "C08.kinds", kk+" : bool", pos, "bool read as bool", "bool mismatch")
			default:
				r.Undecided("C08.kinds", kk, pos, "scan kind not in the checker's table")
			}
		}
	}
	c08Pair(r)
	c08Registry(r)
	c08Stream(r)
	c08Whole(r)
	c08AnyNeverNil(r)
	{
		var fs []*core.FuncInfo
		if ci := r.W.Interface("pkg/compressor", "Compressor"); ci != nil {
			for _, n := range r.W.Implementers(ci) {
				fs = append(fs, methodInfo(r.W, n, "Compress"), methodInfo(r.W, n, "Decompress"))
			}
		}
		if pi := r.W.Interface("pkg/datasource/sql/undo/parser", "UndoLogParser"); pi != nil {
			for _, n := range r.W.Implementers(pi) {
				fs = append(fs, methodInfo(r.W, n, "Encode"), methodInfo(r.W, n, "Decode"))
			}
		}
		fs = append(fs, rfn, methodInfo(r.W, r.W.NamedType("pkg/datasource/sql/types", "ColumnImage"), "MarshalJSON"))
		var keep []*core.FuncInfo
		for _, f := range fs {
			if f != nil && !r.W.IsTestFile(f.Decl.Pos()) && !strings.Contains(f.Pkg.PkgPath, "/mock") {
				keep = append(keep, f)
			}
		}
		pureOfRuntimeState(r, "C08.pure", "the encoding", append(keep, reachFrom(r.W, keep, core.Module+"/pkg/compressor", core.Module+"/pkg/datasource/sql/undo/parser", core.Module+"/pkg/datasource/sql/types")...), nil)
		noPooledResult(r, "C08.pure", keep)
		r.Floor("C08.pure", 15)
	}
	r.Floor("C08.codes", 28)
	r.Floor("C08.kinds", 40)
	r.Floor("C08.pair", 5)
	r.Floor("C08.registry", 7)
	r.Floor("C08.stream", 10)
}

func isCompressorMethod(w *core.World, f *types.Func, name string) bool {
	return isIfaceOrImpl(w, f, "pkg/compressor", "Compressor", name)
}

// ctxKeyUses lists the constant key values used as index on a map[string]string in fn, split into writes and reads.
func ctxKeyUses(fn *core.FuncInfo) (writes, reads map[string]bool) {
	info := fn.Pkg.TypesInfo
	writes, reads = map[string]bool{}, map[string]bool{}
	lhs := map[ast.Expr]bool{}
	ast.Inspect(fn.Decl.Body, func(n ast.Node) bool {
		if as, ok := n.(*ast.AssignStmt); ok {
			for _, l := range as.Lhs {
				lhs[ast.Unparen(l)] = true
			}
		}
		return true
	})
	ast.Inspect(fn.Decl.Body, func(n ast.Node) bool {
		if cl, ok := n.(*ast.CompositeLit); ok {
			// map[string]string{key: .., key: ..} writes its keys
			if t := info.TypeOf(cl); t != nil && t.Underlying().String() == "map[string]string" {
				for _, el := range cl.Elts {
					if kv, ok := el.(*ast.KeyValueExpr); ok {
						if v := core.ConstVal(info, kv.Key); v != nil && v.Kind() == constant.String {
							writes[constant.StringVal(v)] = true
						}
					}
				}
			}
			return true
		}
		ix, ok := n.(*ast.IndexExpr)
		if !ok {
			return true
		}
		t := info.TypeOf(ix.X)
		if t == nil || t.Underlying().String() != "map[string]string" {
			return true
		}
		v := core.ConstVal(info, ix.Index)
		if v == nil || v.Kind() != constant.String {
			return true
		}
		if lhs[ix] {
			writes[constant.StringVal(v)] = true
		} else {
			reads[constant.StringVal(v)] = true
		}
		return true
	})
	return
}

func c08Pair(r *core.Run) {
	w := r.W
	u := resolveUndoWorld(r, "C08.pair")
	if u == nil {
		return
	}
	// flush side
	var flushFns []*core.FuncInfo
	for _, f := range w.SortedFuncs() {
		if f.Obj.Name() == "FlushUndoLog" && isFlushUndo(w, f.Obj) && !w.IsTestFile(f.Decl.Pos()) && !strings.Contains(f.Pkg.PkgPath, "mock") {
			flushFns = append(flushFns, f)
		}
	}
	flushReach := reachFrom(w, flushFns, pUndo)
	undoReach := u.chain
	has := func(fs []*core.FuncInfo, name string) (bool, string) {
		for _, f := range fs {
			for _, cs := range w.Calls(f) {
				if isCompressorMethod(w, cs.Static, name) {
					return true, core.ShortKey(f.Obj)
				}
			}
		}
		return false, ""
	}
	comp, compAt := has(flushReach, "Compress")
	decomp, decompAt := has(undoReach, "Decompress")
	r.Sites++
	r.Check(comp == decomp, "C08.pair", "Compress on the flush path <=> Decompress on the undo path", "", "both sides (de)compress: "+compAt+" / "+decompAt,
		"the undo path decompresses the rollback info (in "+decompAt+") but the flush path never compresses it (Compress reached: "+map[bool]string{true: compAt, false: "no"}[comp]+"): with any compress type other than None the stored log cannot be read back and every rollback fails")
	// context keys: everything the undo path reads was written by the flush path
	wKeys, rKeys := map[string]bool{}, map[string]bool{}
	for _, f := range flushReach {
		wr, _ := ctxKeyUses(f)
		for k := range wr {
			wKeys[k] = true
		}
	}
	for _, f := range undoReach {
		_, rd := ctxKeyUses(f)
		for k := range rd {
			rKeys[k] = true
		}
	}
	var rk []string
	for k := range rKeys {
		rk = append(rk, k)
	}
	sort.Strings(rk)
	for _, k := range rk {
		r.Sites++
		r.Check(wKeys[k], "C08.pair", "context key "+k+" read on the undo path is written by the flush path", "", "written and read under the same constant", "the undo path reads the log context under "+k+" but the flush path never writes that key")
	}
	if len(rk) < 2 {
		r.Bad("C08.pair", "undo path reads compressor and serializer keys from the context", "", "expected the undo path to read at least the compressor and serializer keys")
	}
	// compressor selected from the same key on both sides
	if comp && decomp {
		keyOf := func(fs []*core.FuncInfo, name string) string {
			out := ""
			for _, f := range fs {
				ast.Inspect(f.Decl.Body, func(n ast.Node) bool {
					c, ok := n.(*ast.CallExpr)
					if !ok || !isCompressorMethod(w, core.Callee(f.Pkg.TypesInfo, c), name) {
						return true
					}
					o := origin(f, ast.Unparen(c.Fun).(*ast.SelectorExpr).X, 6)
					for _, k := range []string{"compressorTypeKey"} {
						if strings.Contains(o, "const:"+k) {
							out = k
						}
					}
					if out == "" {
						// the type name travels in a struct field: the context key that field is stored under /
						// loaded from, anywhere in the package (ctx[K] = x.F  or  x.F[, ok] = ctx[K])
						var fld *types.Var
						ast.Inspect(ast.Unparen(c.Fun).(*ast.SelectorExpr).X, func(m ast.Node) bool {
							if sel, ok := m.(*ast.SelectorExpr); ok {
								if v, ok := f.Pkg.TypesInfo.Uses[sel.Sel].(*types.Var); ok && v.IsField() && fld == nil {
									fld = v
								}
							}
							return true
						})
						if fld != nil {
							keys := map[string]bool{}
							isFld := func(info *types.Info, e ast.Expr) bool {
								sel, ok := ast.Unparen(e).(*ast.SelectorExpr)
								return ok && info.Uses[sel.Sel] == types.Object(fld)
							}
							keyOfIndex := func(info *types.Info, e ast.Expr) string {
								ix, ok := ast.Unparen(e).(*ast.IndexExpr)
								if !ok {
									return ""
								}
								if cst := core.ConstObj(info, ix.Index); cst != nil {
									return cst.Name()
								}
								return ""
							}
							for _, g := range w.SortedFuncs() {
								if g.Pkg != f.Pkg || w.IsTestFile(g.Decl.Pos()) || g.Decl.Body == nil {
									continue
								}
								gi := g.Pkg.TypesInfo
								ast.Inspect(g.Decl.Body, func(m ast.Node) bool {
									as, ok := m.(*ast.AssignStmt)
									if !ok {
										return true
									}
									if len(as.Rhs) == 1 && len(as.Lhs) >= 1 && isFld(gi, as.Lhs[0]) {
										if k := keyOfIndex(gi, as.Rhs[0]); k != "" {
											keys[k] = true
										}
									}
									if len(as.Lhs) == len(as.Rhs) {
										for i := range as.Lhs {
											if k := keyOfIndex(gi, as.Lhs[i]); k != "" && isFld(gi, as.Rhs[i]) {
												keys[k] = true
											}
										}
									}
									return true
								})
							}
							if len(keys) == 1 {
								for k := range keys {
									out = k
								}
							}
						}
					}
					return true
				})
			}
			return out
		}
		ck, dk := keyOf(flushReach, "Compress"), keyOf(undoReach, "Decompress")
		r.Sites++
		r.Check(ck != "" && ck == dk, "C08.pair", "compressor chosen from the same context key on both sides", "", "key "+ck, "Compress uses the compressor named under '"+ck+"' but Decompress the one under '"+dk+"'")
	}
	// every UndoLogParser.Decode restores kinds by type code
	ulp := w.Interface("pkg/datasource/sql/undo/parser", "UndoLogParser")
	if ulp == nil {
		r.Anchor("C08.pair", nil, "parser.UndoLogParser")
		return
	}
	_, rfn := readerTable(w)
	for _, n := range w.Implementers(ulp) {
		if w.IsTestFile(n.Obj().Pos()) {
			continue
		}
		dec := methodInfo(w, n, "Decode")
		if dec == nil {
			continue
		}
		r.Fn(dec)
		r.Sites++
		restores := false
		for _, f := range reachFrom(w, []*core.FuncInfo{dec}, core.Module+"/pkg/datasource/sql") {
			// explicit: reaches a function switching over JDBCType constants
			tab, _ := caseTable(f, constLabel(f.Pkg.TypesInfo, "JDBCType"))
			if len(tab) >= 10 {
				restores = true
			}
			// implicit: encoding/json into a type containing ColumnImage (json.Unmarshaler)
			for _, cs := range w.Calls(f) {
				if cs.Static != nil && cs.Static.Pkg() != nil && strings.HasSuffix(cs.Static.Pkg().Path(), "json") && cs.Static.Name() == "Unmarshal" && len(cs.Call.Args) == 2 && rfn != nil {
					if t := f.Pkg.TypesInfo.TypeOf(cs.Call.Args[1]); t != nil && strings.Contains(t.String(), "undo.BranchUndoLog") {
						restores = true
					}
				}
			}
		}
		r.Check(restores, "C08.pair", core.ShortKey(dec.Obj)+" restores value kinds by JDBC type code", w.Pos(dec.Decl.Pos()), "decode goes through the type-code switch",
			"this serializer's Decode never consults the column's JDBC type code: numbers come back as float64, times and binary data as strings, whatever the column type (sibling parsers restore them)")
		errDiscipline(r, "C08.pair", reachFrom(w, []*core.FuncInfo{dec, methodInfo(w, n, "Encode")}, pUndoParser), nil)
	}
	// C08.nopanic: parser variable assigned on every path before Decode
	for _, f := range undoReach {
		info := f.Pkg.TypesInfo
		var pv types.Object
		ast.Inspect(f.Decl.Body, func(n ast.Node) bool {
			if c, ok := n.(*ast.CallExpr); ok && isIfaceOrImpl(w, core.Callee(info, c), "pkg/datasource/sql/undo/parser", "UndoLogParser", "Decode") {
				pv = recvObj(info, c)
			}
			return true
		})
		if pv == nil {
			continue
		}
		sp := &flow.Spec{W: w,
			AssignTags: func(pkg *packages.Package, as *ast.AssignStmt) []flow.Tag {
				for _, l := range as.Lhs {
					if isObj(pkg.TypesInfo, l, pv) {
						return []flow.Tag{"parser"}
					}
				}
				return nil
			},
			Classify: func(pkg *packages.Package, call *ast.CallExpr, callee *types.Func) []flow.Tag {
				if isIfaceOrImpl(w, callee, "pkg/datasource/sql/undo/parser", "UndoLogParser", "Decode") {
					return []flow.Tag{"decode"}
				}
				return nil
			}}
		res := sp.Analyze(f)
		for _, cp := range res.Calls {
			r.Sites++
			r.Check(cp.Before.Has("parser") || cp.Before.IsNonNil(pv), "C08.nopanic", core.ShortKey(f.Obj)+" -> UndoLogParser.Decode on an assigned parser", w.Pos(cp.Call.Pos()),
				"the parser is assigned on every path to Decode", "Decode is called on a parser variable that is still nil on some path (log context without a serializer name): the rollback panics instead of failing")
		}
	}
}

func c08Registry(r *core.Run) {
	w := r.W
	ct := w.NamedType("pkg/compressor", "CompressorType")
	get := methodInfo(w, ct, "GetCompressor")
	if get == nil {
		r.Anchor("C08.registry", nil, "compressor.CompressorType.GetCompressor")
		return
	}
	r.Fn(get)
	info := get.Pkg.TypesInfo
	tab, def := dispatchTable(w, get, constLabel(info, "CompressorType"))
	retType := func(cc ast.Node) *types.Named {
		var out *types.Named
		if cc == nil {
			return nil
		}
		ast.Inspect(cc, func(n ast.Node) bool {
			if cl, ok := n.(*ast.CompositeLit); ok {
				if nt, ok := info.TypeOf(cl).(*types.Named); ok {
					out = nt
				}
			}
			return true
		})
		return out
	}
	var names []string
	for k := range tab {
		names = append(names, k)
	}
	sort.Strings(names)
	for _, name := range names {
		t := retType(tab[name])
		r.Sites++
		key := "pkg/compressor.(CompressorType).GetCompressor case " + name
		if t == nil {
			r.Undecided("C08.registry", key, w.Pos(tab[name].Pos()), "case does not return a composite literal")
			continue
		}
		gt := methodInfo(w, t, "GetCompressorType")
		got := ""
		if gt != nil {
			ast.Inspect(gt.Decl.Body, func(n ast.Node) bool {
				if rs, ok := n.(*ast.ReturnStmt); ok && len(rs.Results) == 1 {
					got = constName(core.ConstObj(gt.Pkg.TypesInfo, rs.Results[0]))
				}
				return true
			})
		}
		r.Check(got == name, "C08.registry", key, w.Pos(tab[name].Pos()), "returns "+t.Obj().Name()+" whose type is "+name, "the case for "+name+" returns "+t.Obj().Name()+" which reports type "+got+": data would be written with one codec and read with another")
	}
	// default -> identity
	r.Sites++
	okDef := false
	if def != nil {
		if t := retType(def); t != nil {
			if c := methodInfo(w, t, "Compress"); c != nil {
				ps := paramObjs(c)
				ast.Inspect(c.Decl.Body, func(n ast.Node) bool {
					if rs, ok := n.(*ast.ReturnStmt); ok && len(rs.Results) == 2 && len(ps) == 1 && isObj(c.Pkg.TypesInfo, rs.Results[0], ps[0]) {
						okDef = true
					}
					return true
				})
			}
		}
	}
	r.Check(okDef, "C08.registry", "pkg/compressor.(CompressorType).GetCompressor default -> identity", w.Pos(get.Decl.Pos()), "unknown spellings map to the identity compressor", "unknown compress type spellings do not map to an identity compressor")
	for _, c := range enumConsts(w, "pkg/compressor", "CompressorType") {
		if _, ok := tab[c.Name()]; !ok {
			r.Sites++
			// constants without a case fall to the default (identity) on both sides: consistent, recorded as discharged
			r.OK("C08.registry", "pkg/compressor.(CompressorType).GetCompressor "+c.Name()+" falls to the identity default", w.Pos(get.Decl.Pos()), "no case: identity on both the write and the read side")
		}
	}
}

// c08Stream: per Compressor implementation,
//   - a stream writer (a value with Write and Close created around &buf) is closed before buf.Bytes() is taken:
//     the trailer that ends the stream is written by Close, and a deferred Close runs after the result was read;
//   - Compress hands back its own input on some path only when Decompress is the identity as well: raw bytes
//     stored under a compress type are fed to the real decompressor on rollback.
func c08Stream(r *core.Run) {
	w := r.W
	ci := w.Interface("pkg/compressor", "Compressor")
	if ci == nil {
		r.Anchor("C08.stream", nil, "compressor.Compressor")
		return
	}
	for _, n := range w.Implementers(ci) {
		if w.IsTestFile(n.Obj().Pos()) || strings.Contains(n.Obj().Pkg().Path(), "mock") {
			continue
		}
		comp, decomp := methodInfo(w, n, "Compress"), methodInfo(w, n, "Decompress")
		if comp == nil || decomp == nil {
			continue
		}
		r.Fn(comp)
		r.Fn(decomp)
		name := core.ShortKey(comp.Obj)
		info := comp.Pkg.TypesInfo
		// stream writers: locals with Write+Close defined by a call that receives &<bytes.Buffer local>
		writers := map[types.Object]types.Object{} // writer var -> buffer var
		ast.Inspect(comp.Decl.Body, func(nd ast.Node) bool {
			var lhs []ast.Expr
			var rhs []ast.Expr
			switch x := nd.(type) {
			case *ast.AssignStmt:
				lhs, rhs = x.Lhs, x.Rhs
			case *ast.ValueSpec:
				for _, nm := range x.Names {
					lhs = append(lhs, nm)
				}
				rhs = x.Values
			}
			if len(rhs) != 1 || len(lhs) == 0 {
				return true
			}
			call, ok := ast.Unparen(rhs[0]).(*ast.CallExpr)
			if !ok {
				return true
			}
			var buf types.Object
			for _, a := range call.Args {
				if u, ok := ast.Unparen(a).(*ast.UnaryExpr); ok && u.Op == token.AND {
					if o := core.ObjOf(info, u.X); o != nil && strings.HasSuffix(o.Type().String(), "bytes.Buffer") {
						buf = o
					}
				}
			}
			wv := core.ObjOf(info, lhs[0])
			if buf == nil || wv == nil {
				return true
			}
			ms := types.NewMethodSet(wv.Type())
			if ms.Lookup(nil, "Close") != nil && ms.Lookup(nil, "Write") != nil {
				writers[wv] = buf
			}
			return true
		})
		if len(writers) > 0 {
			sp := &flow.Spec{W: w, Depth: 0,
				Classify: func(pkg *packages.Package, call *ast.CallExpr, callee *types.Func) []flow.Tag {
					sel, ok := ast.Unparen(call.Fun).(*ast.SelectorExpr)
					if !ok || callee == nil {
						return nil
					}
					o := core.ObjOf(pkg.TypesInfo, sel.X)
					if _, isW := writers[o]; isW && callee.Name() == "Close" {
						return []flow.Tag{"close"}
					}
					for _, b := range writers {
						if o == b && (callee.Name() == "Bytes" || callee.Name() == "String") {
							return []flow.Tag{"bytes"}
						}
					}
					return nil
				}}
			res := sp.Analyze(comp)
			n := 0
			for _, cp := range res.Calls {
				if !inSet("bytes", cp.Tags...) {
					continue
				}
				n++
				r.Sites++
				r.Check(cp.Before.Has("close"), "C08.stream", name+" stream closed before its bytes are taken", w.Pos(cp.Call.Pos()), "Close precedes Bytes on every path",
					"the compressed bytes are taken before the stream writer is closed (a deferred Close runs after the result was read): the stream lacks its end marker and Decompress fails with unexpected EOF on every rollback under this compress type")
			}
			if n == 0 {
				r.Undecided("C08.stream", name+" stream closed before its bytes are taken", w.Pos(comp.Decl.Pos()), "a stream writer is created but the result is not taken with Bytes() of its buffer")
			}
		} else {
			r.OK("C08.stream", name+" uses no stream writer", w.Pos(comp.Decl.Pos()), "block API")
		}
		// identity paths
		ident := func(f *core.FuncInfo) (some, all bool) {
			ps := paramObjs(f)
			all = true
			cnt := 0
			ast.Inspect(f.Decl.Body, func(nd ast.Node) bool {
				if _, ok := nd.(*ast.FuncLit); ok {
					return false
				}
				rs, ok := nd.(*ast.ReturnStmt)
				if !ok || len(rs.Results) == 0 {
					return true
				}
				cnt++
				if len(ps) > 0 && isObj(f.Pkg.TypesInfo, rs.Results[0], ps[0]) {
					some = true
				} else {
					all = false
				}
				return true
			})
			if cnt == 0 {
				all = false
			}
			return
		}
		cs, _ := ident(comp)
		_, da := ident(decomp)
		r.Sites++
		r.Check(!cs || da, "C08.stream", name+" passes its input through only if Decompress is the identity", w.Pos(comp.Decl.Pos()), "no raw pass-through under a real decompressor",
			"Compress returns its input unchanged on some path while Decompress always decodes: the context still names this compress type, so rollback feeds raw bytes to the decompressor and fails")
	}
}

// c08Whole: Decompress hands back the whole of what Compress was given.
//   - a manual loop over the decompressing reader's Read may leave only on an error (io.EOF included): a short
//     read is not the end of the stream (flate delivers at most one window per Read);
//   - a block decompressor (no length stored with the block) must not be given a destination capped at a constant
//     multiple of the input below the format's maximum expansion (lz4: 255) unless a too-short buffer is retried
//     with a larger one (the call sits in a loop).
func c08Whole(r *core.Run) {
	w := r.W
	ci := w.Interface("pkg/compressor", "Compressor")
	if ci == nil {
		return
	}
	for _, n := range w.Implementers(ci) {
		if w.IsTestFile(n.Obj().Pos()) || strings.Contains(n.Obj().Pkg().Path(), "mock") {
			continue
		}
		decomp := methodInfo(w, n, "Decompress")
		if decomp == nil || decomp.Decl.Body == nil {
			continue
		}
		fns := append([]*core.FuncInfo{decomp}, reachFrom(w, []*core.FuncInfo{decomp}, decomp.Pkg.PkgPath)...)
		for _, f := range dedupFns(fns) {
			info := f.Pkg.TypesInfo
			r.Fn(f)
			key := core.ShortKey(f.Obj)
			r.Sites++
			bad := ""
			var loops []ast.Node
			ast.Inspect(f.Decl.Body, func(x ast.Node) bool {
				switch l := x.(type) {
				case *ast.ForStmt, *ast.RangeStmt:
					loops = append(loops, l)
				}
				return true
			})
			inLoop := func(p token.Pos) ast.Node {
				var best ast.Node
				for _, l := range loops {
					if l.Pos() <= p && p < l.End() {
						if best == nil || l.Pos() > best.Pos() {
							best = l
						}
					}
				}
				return best
			}
			mentionsErr := func(e ast.Expr) bool {
				hit := false
				ast.Inspect(e, func(m ast.Node) bool {
					if id, ok := m.(*ast.Ident); ok {
						if o := info.Uses[id]; o != nil && o.Type() != nil && types.Identical(o.Type(), types.Universe.Lookup("error").Type()) {
							hit = true
						}
						if o, ok := info.Uses[id].(*types.Var); ok && o.Pkg() != nil && o.Pkg().Path() == "io" && o.Name() == "EOF" {
							hit = true
						}
					}
					if sel, ok := m.(*ast.SelectorExpr); ok && sel.Sel.Name == "EOF" {
						hit = true
					}
					return !hit
				})
				return hit
			}
			// impliesErr: the condition can only hold when the reader has reported an error (io.EOF included)
			var impliesErr func(e ast.Expr) bool
			impliesErr = func(e ast.Expr) bool {
				e = ast.Unparen(e)
				if be, ok := e.(*ast.BinaryExpr); ok {
					switch be.Op {
					case token.LOR:
						return impliesErr(be.X) && impliesErr(be.Y)
					case token.LAND:
						return impliesErr(be.X) || impliesErr(be.Y)
					case token.EQL:
						// err == io.EOF (a sentinel), never err == nil
						if isNilIdent(info, be.X) || isNilIdent(info, be.Y) {
							return false
						}
						return mentionsErr(be)
					case token.NEQ:
						// err != nil
						return (isNilIdent(info, be.X) || isNilIdent(info, be.Y)) && mentionsErr(be)
					}
					return false
				}
				if c, ok := e.(*ast.CallExpr); ok {
					if f := core.Callee(info, c); f != nil && f.Pkg() != nil && f.Pkg().Path() == "errors" && (f.Name() == "Is" || f.Name() == "As") {
						return true
					}
				}
				return false
			}
			// (1) read loops
			for _, l := range loops {
				var body *ast.BlockStmt
				var cond ast.Expr
				switch x := l.(type) {
				case *ast.ForStmt:
					body, cond = x.Body, x.Cond
				case *ast.RangeStmt:
					body = x.Body
				}
				reads := false
				ast.Inspect(body, func(m ast.Node) bool {
					if c, ok := m.(*ast.CallExpr); ok {
						if sel, ok := ast.Unparen(c.Fun).(*ast.SelectorExpr); ok && sel.Sel.Name == "Read" && len(c.Args) == 1 {
							if t := info.TypeOf(sel.X); t != nil && !strings.HasSuffix(t.String(), "bytes.Buffer") && !strings.HasSuffix(t.String(), "bytes.Reader") {
								reads = true
							}
						}
					}
					return true
				})
				if !reads {
					continue
				}
				if cond != nil && !impliesErr(&ast.UnaryExpr{Op: token.NOT, X: cond}) && !mentionsErr(cond) {
					bad = w.Pos(cond.Pos()) + ": the read loop runs while '" + core.ExprString(cond) + "', which does not ask the reader's error"
				}
				// every way out of the loop (break, return) is under a test of the error
				var stack []ast.Node
				ast.Inspect(body, func(m ast.Node) bool {
					if m == nil {
						stack = stack[:len(stack)-1]
						return true
					}
					stack = append(stack, m)
					if _, isLit := m.(*ast.FuncLit); isLit {
						return true
					}
					leaves := false
					switch y := m.(type) {
					case *ast.BranchStmt:
						leaves = y.Tok == token.BREAK && inLoop(y.Pos()) == l
					case *ast.ReturnStmt:
						leaves = true
					}
					if !leaves {
						return true
					}
					under := false
					for i := len(stack) - 2; i >= 0; i-- {
						if ifs, ok := stack[i].(*ast.IfStmt); ok && impliesErr(ifs.Cond) {
							// (the statement sits in the then-branch: else-branches are not accepted)
							if i+1 < len(stack) && stack[i+1] == ast.Node(ifs.Body) {
								under = true
							}
						}
						if cc, ok := stack[i].(*ast.CaseClause); ok {
							for _, e := range cc.List {
								if mentionsErr(e) {
									under = true
								}
							}
						}
					}
					if !under && bad == "" {
						bad = w.Pos(m.Pos()) + ": the read loop is left without a test of the reader's error (a short read is not the end of the stream)"
					}
					return true
				})
			}
			// (2) block decompressors
			ast.Inspect(f.Decl.Body, func(x ast.Node) bool {
				c, ok := x.(*ast.CallExpr)
				if !ok || len(c.Args) < 2 {
					return true
				}
				callee := core.Callee(info, c)
				if callee == nil || callee.Pkg() == nil || !strings.Contains(callee.Pkg().Path(), "pierrec/lz4") || !strings.HasPrefix(callee.Name(), "UncompressBlock") {
					return true
				}
				if inLoop(c.Pos()) != nil {
					return true // a too-short destination is retried
				}
				o := origin(f, c.Args[1], 4)
				// make([]byte, K * len(in))
				factor := int64(-1)
				if dv, ok := core.ObjOf(info, c.Args[1]).(*types.Var); ok {
					for _, d := range localDefs(f, dv) {
						if mk, ok := ast.Unparen(d.rhs).(*ast.CallExpr); ok && len(mk.Args) >= 2 {
							if be, ok := ast.Unparen(mk.Args[1]).(*ast.BinaryExpr); ok && be.Op == token.MUL {
								for _, side := range []ast.Expr{be.X, be.Y} {
									if v := core.ConstVal(info, side); v != nil && v.Kind() == constant.Int {
										factor, _ = constant.Int64Val(v)
									}
								}
							}
						}
					}
				}
				if factor < 255 && bad == "" {
					bad = w.Pos(c.Pos()) + ": the destination of the block decompressor (" + o + ") is capped below the format's maximum expansion (255x) and a too-short buffer is not retried: what Compress accepted cannot be decompressed once it shrank by more than that factor"
				}
				return true
			})
			r.Check(bad == "", "C08.stream", key+" hands back the whole uncompressed text", w.Pos(f.Decl.Pos()), "reads to the reader's error / whole-stream helpers / retried block decompression",
				bad+": a large or very repetitive undo log is cut short or rejected at rollback although it was written without error")
		}
	}
}

// decodedValueVar: o is a local variable of f defined once from the decoded document's "value" entry (m["value"])
func decodedValueVar(f *core.FuncInfo, o types.Object) bool {
	v, ok := o.(*types.Var)
	if !ok || f == nil || v.IsField() {
		return false
	}
	defs := localDefs(f, v)
	if len(defs) != 1 {
		return false
	}
	ix, ok := ast.Unparen(defs[0].rhs).(*ast.IndexExpr)
	if !ok {
		return false
	}
	c := core.ConstVal(f.Pkg.TypesInfo, ix.Index)
	return c != nil && c.Kind() == constant.String && constant.StringVal(c) == "value"
}

// c08AnyNeverNil (C08.kinds): the protobuf undo-log writer wraps every column value — NULL included — in an Any: a
// function of the parser package that answers (*Any, error) never answers (nil, nil). The reader cannot unpack a
// missing Any and leaves the column out, so a NULL column would vanish from the image.
func c08AnyNeverNil(r *core.Run) {
	w := r.W
	n := 0
	for _, f := range w.SortedFuncs() {
		if !strings.HasSuffix(f.Pkg.PkgPath, "/pkg/datasource/sql/undo/parser") || w.IsTestFile(f.Decl.Pos()) || f.Decl.Body == nil {
			continue
		}
		sig := f.Obj.Type().(*types.Signature)
		if sig.Results().Len() != 2 || !c08IsAnyPtr(sig.Results().At(0).Type()) || sig.Results().At(1).Type().String() != "error" {
			continue
		}
		res := (&flow.Spec{W: w, Depth: 0}).Analyze(f)
		r.Fn(f)
		for _, ex := range res.Exits {
			if ex.Class == flow.ExitErr || len(ex.Results) != 2 {
				continue
			}
			n++
			r.Sites++
			isNil := isNilIdent(f.Pkg.TypesInfo, ex.Results[0])
			if o := core.ObjOf(f.Pkg.TypesInfo, ex.Results[0]); o != nil && ex.St.IsNil(o) {
				isNil = true
			}
			r.Check(!isNil, "C08.kinds", core.ShortKey(f.Obj)+" "+exitRole(ex, nil)+" answers a wrapped value", w.Pos(ex.Pos), "never (nil, nil)",
				"the writer answers no Any for some value (NULL): the reader cannot unpack a missing Any and leaves the column out of the decoded row — the undo of that row restores every column but this one")
		}
	}
	if n == 0 {
		r.Undecided("C08.kinds", "protobuf value wrapper (*Any, error)", "", "not found")
	}
}

// c08IsAnyPtr: *anypb.Any, also through the alias the older protobuf module exports.
func c08IsAnyPtr(t types.Type) bool {
	p, ok := types.Unalias(t).(*types.Pointer)
	if !ok {
		return false
	}
	n, ok := types.Unalias(p.Elem()).(*types.Named)
	return ok && n.Obj().Name() == "Any" && n.Obj().Pkg() != nil && strings.HasSuffix(n.Obj().Pkg().Path(), "/anypb")
}
