package rules

import (
	"go/ast"
	"go/constant"
	"go/token"
	"go/types"
	"sort"
	"strings"

	"golang.org/x/tools/go/packages"

	"seatalint/internal/core"
	"seatalint/internal/flow"
)

func init() { register("C14", checkC14) }

// mapFieldOps: for a function, the sync.Map fields of its receiver it calls op (Store/Delete/Load) on,
// following calls to other methods of repo types one level at a time (bounded).
func mapFieldOps(w *core.World, f *core.FuncInfo, op string, depth int, seen map[*core.FuncInfo]bool) map[string]bool {
	out := map[string]bool{}
	if f == nil || depth == 0 || seen[f] {
		return out
	}
	seen[f] = true
	info := f.Pkg.TypesInfo
	ast.Inspect(f.Decl.Body, func(n ast.Node) bool {
		c, ok := n.(*ast.CallExpr)
		if !ok {
			return true
		}
		callee := core.Callee(info, c)
		if mo, field := mapOp(w, info, c, callee); mo != "" {
			if mo == op && field != "" {
				out[field] = true
			}
			return true
		}
		if g := w.Info(callee); g != nil && g.Pkg.PkgPath == pGetty {
			for k := range mapFieldOps(w, g, op, depth-1, seen) {
				out[k] = true
			}
		}
		return true
	})
	return out
}

// mapOp: call is an operation on a sync.Map — directly, or through a method of a table type of the repository that
// forwards to the one sync.Map it owns (`g.futures.Store(id, f)` with Store doing t.entries.Store(id, f)). op is
// the sync.Map method, field the field (of the caller's struct) the map or table is held in ("" if not a field).
func mapOp(w *core.World, info *types.Info, call *ast.CallExpr, callee *types.Func) (op, field string) {
	recvField := func() string {
		if sel, ok := ast.Unparen(call.Fun).(*ast.SelectorExpr); ok {
			if fs, ok := ast.Unparen(sel.X).(*ast.SelectorExpr); ok {
				if v, ok := info.Uses[fs.Sel].(*types.Var); ok && v.IsField() {
					return v.Name()
				}
			}
		}
		return ""
	}
	if callee == nil {
		return "", ""
	}
	if sig, ok := callee.Type().(*types.Signature); ok && sig.Recv() != nil && callee.Pkg() != nil && callee.Pkg().Path() == "sync" {
		if n := core.RecvNamed(callee); n != nil && n.Obj().Name() == "Map" {
			return callee.Name(), recvField()
		}
		return "", ""
	}
	g := w.Info(callee)
	if g == nil || g.Decl.Recv == nil || g.Decl.Body == nil || len(g.Decl.Recv.List) != 1 || len(g.Decl.Recv.List[0].Names) != 1 {
		return "", ""
	}
	ro := g.Pkg.TypesInfo.Defs[g.Decl.Recv.List[0].Names[0]]
	// a table type: its struct is the one sync.Map (and nothing else map-like)
	if rn := core.RecvNamed(g.Obj); rn == nil {
		return "", ""
	} else if st, ok := rn.Underlying().(*types.Struct); !ok {
		return "", ""
	} else {
		maps := 0
		for i := 0; i < st.NumFields(); i++ {
			if strings.HasSuffix(st.Field(i).Type().String(), "sync.Map") {
				maps++
			}
		}
		if maps != 1 || st.NumFields() > 2 {
			return "", ""
		}
	}
	inner, n := "", 0
	ast.Inspect(g.Decl.Body, func(m ast.Node) bool {
		c, ok := m.(*ast.CallExpr)
		if !ok {
			return true
		}
		f := core.Callee(g.Pkg.TypesInfo, c)
		if f == nil || f.Pkg() == nil || f.Pkg().Path() != "sync" || core.RecvNamed(f) == nil || core.RecvNamed(f).Obj().Name() != "Map" {
			return true
		}
		if sel, ok := ast.Unparen(c.Fun).(*ast.SelectorExpr); ok {
			if fs, ok := ast.Unparen(sel.X).(*ast.SelectorExpr); ok {
				if id, ok := ast.Unparen(fs.X).(*ast.Ident); ok && g.Pkg.TypesInfo.Uses[id] == ro {
					inner = f.Name()
					n++
				}
			}
		}
		return true
	})
	if n != 1 {
		return "", ""
	}
	return inner, recvField()
}

func keysOf(m map[string]bool) string {
	var k []string
	for x := range m {
		k = append(k, x)
	}
	sort.Strings(k)
	return strings.Join(k, ",")
}

func checkC14(r *core.Run) {
	r.Explain = "Decided statically: (C14.nonblock) every send on MessageFuture.Done cannot block: the channel's only make site has capacity >= 1, or the send sits in a select with a default arm; (C14.table) a pending future is stored only when a waiter exists, the waiter's timeout arm and the write-failure path delete from the same table the store wrote, delivery removes the future after notifying, and nobody else removes one (the waiter on timeout, the failed write, a processor after notifying); (C14.ids) the key stored is the ID of the message handed to WritePkg, delivery looks up the received frame's ID, and every message sent with a waiter takes its ID from one atomic counter object; (C14.timeout) the waiter has a timeout arm returning a non-nil error, and every callback handed to the send together with a stored future reaches that waiter (directly or through a goroutine it starts). (C14.timeout, also) every receive from MessageFuture.Done is an arm of a blocking select in a function the reply path does not reach (nobody but the waiting requester takes the completion token). NOT decided: schedules; connection loss while requests are pending (getty behaviour)."
	r.Explain += " Round 8: (C14.table, also) at every exit of a send function that takes the waiter's callback, a future stored on the way (by the function or a helper of the package analysed in its context, deferred clean-ups run at the exits) was removed or handed to the waiter — none is left in the table without an owner."
	r.Trusted = []string{"go/types, go/cfg", "sync.Map", "C13.mirror ties RpcMessage.ID to the header's request id"}
	w := r.W
	mf := w.NamedType("pkg/protocol/message", "MessageFuture")
	gr := w.NamedType("pkg/remoting/getty", "GettyRemoting")
	gc := w.NamedType("pkg/remoting/getty", "GettyRemotingClient")
	if mf == nil || gr == nil || gc == nil {
		r.Anchor("C14.anchor", nil, "message.MessageFuture, getty.GettyRemoting, getty.GettyRemotingClient")
		return
	}
	// ---- C14.nonblock
	doneCap := int64(-1)
	nMake := 0
	for _, f := range w.SortedFuncs() {
		if w.IsTestFile(f.Decl.Pos()) {
			continue
		}
		info := f.Pkg.TypesInfo
		ast.Inspect(f.Decl.Body, func(n ast.Node) bool {
			cl, ok := n.(*ast.CompositeLit)
			if !ok {
				return true
			}
			if t, ok := info.TypeOf(cl).(*types.Named); !ok || t != mf {
				return true
			}
			if v := litField(cl, "Done"); v != nil {
				if c, ok := ast.Unparen(v).(*ast.CallExpr); ok {
					if id, ok := c.Fun.(*ast.Ident); ok && id.Name == "make" {
						nMake++
						doneCap = 0
						if len(c.Args) == 2 {
							if cv := core.ConstVal(info, c.Args[1]); cv != nil && cv.Kind() == constant.Int {
								doneCap, _ = constant.Int64Val(cv)
							} else {
								doneCap = -1
							}
						}
					}
				}
			}
			return true
		})
	}
	nSend := 0
	completers := map[*types.Func]bool{}
	for _, f := range w.SortedFuncs() {
		if w.IsTestFile(f.Decl.Pos()) || strings.Contains(f.Pkg.PkgPath, "/mock") {
			continue
		}
		info := f.Pkg.TypesInfo
		var stack []ast.Node
		ast.Inspect(f.Decl.Body, func(n ast.Node) bool {
			if n == nil {
				stack = stack[:len(stack)-1]
				return true
			}
			stack = append(stack, n)
			ss, ok := n.(*ast.SendStmt)
			if !ok {
				return true
			}
			sel, ok := ast.Unparen(ss.Chan).(*ast.SelectorExpr)
			if !ok {
				return true
			}
			v, ok := info.Uses[sel.Sel].(*types.Var)
			if !ok || !v.IsField() || v.Name() != "Done" {
				return true
			}
			if t := info.TypeOf(sel.X); t == nil || !strings.HasSuffix(t.String(), "message.MessageFuture") {
				return true
			}
			nSend++
			if core.RecvNamed(f.Obj) == mf {
				completers[f.Obj] = true // the future completes itself: its callers are the delivery sites
			}
			r.Fn(f)
			r.Sites++
			inSelectDefault := false
			for i := len(stack) - 1; i >= 0; i-- {
				if cc, ok := stack[i].(*ast.CommClause); ok && cc.Comm == ast.Stmt(ss) && i >= 2 {
					if sel, ok := stack[i-2].(*ast.SelectStmt); ok {
						for _, c := range sel.Body.List {
							if c.(*ast.CommClause).Comm == nil {
								inSelectDefault = true
							}
						}
					}
				}
			}
			r.Check(inSelectDefault || (nMake == 1 && doneCap >= 1), "C14.nonblock", core.ShortKey(f.Obj)+" : send on MessageFuture.Done cannot block", w.Pos(ss.Pos()),
				"capacity >= 1 at the only make site (or select with default)", "a bare send on MessageFuture.Done, whose channel is unbuffered: a reply arriving after its waiter left (or twice) blocks the goroutine that processes incoming messages forever")
			return true
		})
	}
	// delivery sites: direct sends, and calls of a method of the future that sends (single and merged delivery)
	nDeliver := nSend
	for fn := range completers {
		nDeliver-- // the send inside the method is not a site of its own
		for _, cs := range w.Callers(fn) {
			if !w.IsTestFile(cs.Call.Pos()) {
				nDeliver++
			}
		}
	}
	if nDeliver < 2 {
		r.Bad("C14.nonblock", "sends on MessageFuture.Done", "", "expected the single and the merged delivery sites")
	}
	// ---- the function that stores the future and writes the package
	// the method of GettyRemoting that is handed the waiter's callback and (itself or through methods of the same
	// type it calls) both stores the future and writes the package; of several nested ones the innermost
	reaches := func(f *core.FuncInfo) (store, write bool) {
		seen := map[*core.FuncInfo]bool{}
		var walk func(g *core.FuncInfo, d int)
		walk = func(g *core.FuncInfo, d int) {
			if g == nil || seen[g] || d < 0 {
				return
			}
			seen[g] = true
			for _, cs := range w.Calls(g) {
				if op, _ := mapOp(w, g.Pkg.TypesInfo, cs.Call, cs.Static); op == "Store" {
					store = true
				}
				if cs.Static != nil && cs.Static.Name() == "WritePkg" {
					write = true
				}
				if h := w.Info(cs.Static); h != nil && h.Pkg.PkgPath == pGetty && core.RecvNamed(h.Obj) != nil {
					// methods of the type itself, and of a table type of the package that wraps the map
					walk(h, d-1)
				}
			}
		}
		walk(f, 2)
		return
	}
	hasCallback := func(f *core.FuncInfo) bool {
		for _, p := range paramObjs(f) {
			if _, ok := p.Type().Underlying().(*types.Signature); ok {
				return true
			}
		}
		return false
	}
	var cands []*core.FuncInfo
	for _, f := range w.SortedFuncs() {
		if core.RecvNamed(f.Obj) != gr || w.IsTestFile(f.Decl.Pos()) || !hasCallback(f) {
			continue
		}
		if st, wr := reaches(f); st && wr {
			cands = append(cands, f)
		}
	}
	var send *core.FuncInfo
	for _, f := range cands {
		inner := true
		for _, cs := range w.Calls(f) {
			for _, g := range cands {
				if g != f && cs.Static == g.Obj {
					inner = false
				}
			}
		}
		if inner {
			send = f
		}
	}
	if r.Anchor("C14.table", send, "GettyRemoting method that stores the future and writes the package") == nil {
		return
	}
	_ = send.Pkg.TypesInfo
	storeField := keysOf(mapFieldOps(w, send, "Store", 2, map[*core.FuncInfo]bool{}))
	var cbParam, msgParam types.Object
	for _, p := range paramObjs(send) {
		if _, ok := p.Type().Underlying().(*types.Signature); ok {
			cbParam = p
		}
		if strings.HasSuffix(p.Type().String(), "message.RpcMessage") {
			msgParam = p
		}
	}
	sp := &flow.Spec{W: w, Depth: 0, Split: []flow.Tag{"fail:write"},
		Classify: func(pkg *packages.Package, call *ast.CallExpr, callee *types.Func) []flow.Tag {
			op, _ := mapOp(w, pkg.TypesInfo, call, callee)
			switch {
			case op == "Store":
				return []flow.Tag{"store"}
			case op == "Delete":
				return []flow.Tag{"delete"}
			case callee != nil && callee.Name() == "WritePkg":
				return []flow.Tag{"write"}
			}
			return nil
		},
		CondTags: func(pkg *packages.Package, cond ast.Expr, branch bool) []flow.Tag {
			if cbParam != nil && condImpliesNil(pkg.TypesInfo, cond, branch, cbParam, false) {
				return []flow.Tag{"haswaiter"}
			}
			return nil
		}}
	res := sp.Analyze(send)
	key := core.ShortKey(send.Obj)
	for _, cp := range res.Calls {
		switch {
		case inSet("store", cp.Tags...):
			r.Sites++
			r.Check(cp.Before.Has("haswaiter"), "C14.table", key+" -> futures Store only with a waiter", w.Pos(cp.Call.Pos()), "stored only when a callback (waiter) exists",
				"a pending future is stored for a message nobody waits for (responses carry the coordinator's ids, heartbeats a second counter): it is never removed and can replace the future of one of the client's own requests with the same id")
			r.Check(!cp.Before.Maybe("write"), "C14.table", key+" -> future stored before the message is written", w.Pos(cp.Call.Pos()), "store precedes write", "the message can be written before its future is stored: a fast reply would find no future and be discarded")
			k := ""
			if len(cp.Call.Args) == 2 {
				k = originVia(send, cp.Fn, cp.Call.Args[0], 3)
			}
			r.Check(msgParam != nil && k == "param:"+msgParam.Name()+".ID", "C14.ids", key+" -> stored key is the sent message's ID", w.Pos(cp.Call.Pos()), "Store(msg.ID, ...)", "the future is stored under "+k+", not under the ID of the message being written")
		case inSet("write", cp.Tags...):
			r.Sites++
			a := ""
			if len(cp.Call.Args) > 0 {
				a = originVia(send, cp.Fn, cp.Call.Args[0], 3)
			}
			r.Check(msgParam != nil && a == "param:"+msgParam.Name(), "C14.ids", key+" -> WritePkg sends the message whose ID was stored", w.Pos(cp.Call.Pos()), "WritePkg(msg)", "WritePkg sends "+a+", not the message whose ID keys the future")

		}
	}
	// (a clean-up written as a deferred literal that looks at the error being returned is read at the exits: the
	// second reading; the first one is kept for the forms it reads better)
	failedWrites := func(exits []*flow.Exit) (n int, bad []*flow.Exit) {
		for _, ex := range exits {
			ex := ex
			// what holds when this exit reports a failure (an exit `return nil, helper(..)` fails when the helper does)
			has := func(t string) bool {
				return ex.St.Has(t) || (ex.Class == flow.ExitEither && ex.FailImpl[t])
			}
			if has("fail:write") {
				n++
				if !(has("delete") && ex.Class != flow.ExitOK) {
					bad = append(bad, ex)
				}
			}
		}
		return
	}
	nfw, badfw := failedWrites(res.Exits)
	if len(badfw) > 0 {
		sp2 := *sp
		sp2.DeferAtExit = true
		if n2, bad2 := failedWrites(sp2.Analyze(send).Exits); n2 > 0 && len(bad2) == 0 {
			nfw, badfw = n2, nil
		}
	}
	r.Sites += nfw
	if nfw > 0 {
		pos := w.Pos(send.Decl.Pos())
		if len(badfw) > 0 {
			pos = w.Pos(badfw[0].Pos)
		}
		r.Check(len(badfw) == 0, "C14.table", key+" write failure removes the future", pos, "deleted and reported", "a failed write leaves the pending future in the table (or is not reported)")
	}
	delField := keysOf(mapFieldOps(w, send, "Delete", 2, map[*core.FuncInfo]bool{}))
	r.Sites++
	r.Check(delField == storeField && storeField != "", "C14.table", key+" write failure deletes from the table it stored in", w.Pos(send.Decl.Pos()), "field "+storeField, "the store goes to '"+storeField+"' but the write-failure path deletes from '"+delField+"'")
	// ---- who touches the table of pending futures directly: the send (store; delete after a failed write), the
	// lookup and the remover that takes the id of ONE request. Nothing iterates over it or deletes entries it picks
	// itself: the table is keyed by request id only (a future does not know its session), so "fail everything
	// pending" on the loss of one connection aborts the requests in flight on the healthy ones, whose replies then
	// find no future.
	{
		sendChain := map[*core.FuncInfo]bool{send: true}
		for _, cs := range w.Calls(send) {
			if h := w.Info(cs.Static); h != nil && core.RecvNamed(h.Obj) == gr {
				sendChain[h] = true
				for _, cs2 := range w.Calls(h) {
					if h2 := w.Info(cs2.Static); h2 != nil && core.RecvNamed(h2.Obj) == gr {
						sendChain[h2] = true
					}
				}
			}
		}
		nTouch := 0
		for _, f := range w.SortedFuncs() {
			if w.IsTestFile(f.Decl.Pos()) || f.Decl.Body == nil || !strings.HasPrefix(f.Pkg.PkgPath, core.Module+"/pkg/remoting") {
				continue
			}
			info := f.Pkg.TypesInfo
			ps := paramObjs(f)
			ast.Inspect(f.Decl.Body, func(n ast.Node) bool {
				c, ok := n.(*ast.CallExpr)
				if !ok {
					return true
				}
				sel, ok := ast.Unparen(c.Fun).(*ast.SelectorExpr)
				if !ok {
					return true
				}
				fs, ok := ast.Unparen(sel.X).(*ast.SelectorExpr)
				if !ok {
					return true
				}
				fv, ok := info.Uses[fs.Sel].(*types.Var)
				if !ok || !fv.IsField() || fv.Name() != storeField {
					return true
				}
				if t := info.TypeOf(fs.X); t == nil || !strings.HasSuffix(t.String(), "GettyRemoting") {
					return true
				}
				op := sel.Sel.Name
				nTouch++
				r.Sites++
				r.Fn(f)
				key := core.ShortKey(f.Obj) + " -> " + storeField + "." + op
				switch op {
				case "Load":
					r.OK("C14.table", key, w.Pos(c.Pos()), "lookup")
				case "Store":
					r.Check(sendChain[f], "C14.table", key, w.Pos(c.Pos()), "stored by the send", "a pending future is stored outside the send path")
				case "Delete", "LoadAndDelete", "CompareAndDelete":
					own := false
					if len(c.Args) >= 1 {
						for _, p := range ps {
							if isObj(info, c.Args[0], p) {
								own = true // the id of one request, named by the caller
							}
						}
					}
					r.Check(sendChain[f] || own, "C14.table", key, w.Pos(c.Pos()), "the failed write of the send, or the remover of one named request",
						"pending futures are deleted here by a key this function picks itself (not the send's failed write, not the id its caller names): requests in flight on other, healthy sessions lose their futures and their replies are dropped")
				default:
					r.Bad("C14.table", key, w.Pos(c.Pos()), "the table of pending futures is traversed / changed with "+op+": it is keyed by request id only, so whatever is done to 'all pending requests' hits the requests in flight on every session, not just on the one that triggered it")
				}
				return true
			})
		}
		if nTouch < 3 {
			r.Bad("C14.table", "INSTANCE-FLOOR uses of the pending-futures table", "", "fewer uses of the table than the store, the failed-write delete and the remover confirmed by hand")
		}
		// a stored future has an owner on every way out of the send: the waiter it was handed to (whose timeout
		// removes it), or nobody — and then the send itself has removed it again. A return between the store and
		// the hand-over that does neither leaves an entry no timeout will ever clear.
		// (read from the functions of the send that take the waiter's callback, with the package's helpers analysed
		// in their context: a helper that registers the future, or writes and forgets on failure, is part of the
		// path; a clean-up in a deferred literal is run at the exits)
		storesIn := func(f *core.FuncInfo) bool {
			for _, cs := range w.Calls(f) {
				if op, field := mapOp(w, f.Pkg.TypesInfo, cs.Call, cs.Static); op == "Store" && field == storeField {
					return true
				}
			}
			return false
		}
		var reachStore func(f *core.FuncInfo, depth int, seen map[*core.FuncInfo]bool) bool
		reachStore = func(f *core.FuncInfo, depth int, seen map[*core.FuncInfo]bool) bool {
			if seen[f] || depth > 4 {
				return false
			}
			seen[f] = true
			if storesIn(f) {
				return true
			}
			for _, cs := range w.Calls(f) {
				if cs.Iface || cs.Static == nil || cs.InGo {
					continue
				}
				if g := w.Info(cs.Static); g != nil && g.Pkg == f.Pkg && g.Decl.Body != nil && reachStore(g, depth+1, seen) {
					return true
				}
			}
			return false
		}
		covered := map[*core.FuncInfo]bool{}
		for _, f := range w.SortedFuncs() {
			if !sendChain[f] || w.IsTestFile(f.Decl.Pos()) || f.Decl.Body == nil {
				continue
			}
			var cb types.Object
			for _, p := range paramObjs(f) {
				if _, isFn := p.Type().Underlying().(*types.Signature); isFn {
					cb = p
				}
			}
			seen := map[*core.FuncInfo]bool{}
			if cb == nil || !reachStore(f, 0, seen) {
				continue
			}
			for g := range seen {
				covered[g] = true
			}
			// (paths with and without a stored future are kept apart: "stored" goes with "there is a callback";
			// so are paths that removed it again)
			type bad struct {
				pos  token.Pos
				role string
			}
			reading := func(deferAtExit bool) (n int, bads []bad) {
				// (a future is stored only when there is a waiter — decided above, "Store only with a waiter" — so a
				// path that stored one and then finds the callback nil does not exist)
				sp := &flow.Spec{W: w, Depth: 0, Inline: 4, Fork: true, Split: []flow.Tag{"stored", "removed"}, DeferAtExit: deferAtExit, Contradict: [][2]flow.Tag{{"stored", "nowaiter"}}}
				sp.CondTags = func(pkg *packages.Package, cond ast.Expr, branch bool) []flow.Tag {
					if condImpliesNil(pkg.TypesInfo, cond, branch, cb, true) {
						return []flow.Tag{"nowaiter"}
					}
					return nil
				}
				sp.Classify = func(pkg *packages.Package, call *ast.CallExpr, callee *types.Func) []flow.Tag {
					if op, field := mapOp(w, pkg.TypesInfo, call, callee); field == storeField {
						switch op {
						case "Store":
							return []flow.Tag{"stored"}
						case "Delete", "LoadAndDelete":
							return []flow.Tag{"removed"}
						}
					}
					if id, ok := ast.Unparen(call.Fun).(*ast.Ident); ok && pkg.TypesInfo.Uses[id] != nil && sp.RootOf(pkg.TypesInfo.Uses[id]) == cb {
						return []flow.Tag{"handedover"}
					}
					return nil
				}
				for _, ex := range sp.Analyze(f).Exits {
					if !ex.St.Maybe("stored") {
						continue
					}
					n++
					if !(ex.St.Maybe("handedover") || ex.St.Has("removed")) {
						bads = append(bads, bad{ex.Pos, exitRole(ex, func(t string) bool { return inSet(t, "stored", "removed", "handedover") })})
					}
				}
				return
			}
			n, bads := reading(false)
			if len(bads) > 0 {
				if n2, bads2 := reading(true); len(bads2) == 0 && n2 > 0 {
					bads = nil
				}
			}
			r.Sites += n
			r.Check(len(bads) == 0, "C14.table", core.ShortKey(f.Obj)+" leaves no future without an owner", w.Pos(f.Decl.Pos()),
				"every exit after the store: handed to the waiter, or removed again", func() string {
					if len(bads) == 0 {
						return ""
					}
					return "the send returns (" + bads[0].role + ", " + w.Pos(bads[0].pos) + ") after storing a pending future without handing it to the waiter and without removing it: nothing will ever delete that entry (no waiter runs, so no timeout fires) — every request abandoned this way stays in the table"
				}())
		}
		for _, f := range w.SortedFuncs() {
			if sendChain[f] && !w.IsTestFile(f.Decl.Pos()) && f.Decl.Body != nil && storesIn(f) && !covered[f] {
				r.Undecided("C14.table", core.ShortKey(f.Obj)+" stores a future on a path from a function that takes the waiter's callback", w.Pos(f.Decl.Pos()), "not reached within four frames from a send function with a callback parameter")
			}
		}
	}
	// ---- the waiter
	// (the client method that receives from Done itself, or — the wait written as a predicate of the package,
	// waitForResponse(future, timeout) bool — the client method nearest to such a function)
	var waiter *core.FuncInfo
	receives := func(f *core.FuncInfo) bool {
		found := false
		ast.Inspect(f.Decl.Body, func(n ast.Node) bool {
			if ue, ok := n.(*ast.UnaryExpr); ok && ue.Op == token.ARROW {
				if sel, ok := ast.Unparen(ue.X).(*ast.SelectorExpr); ok && sel.Sel.Name == "Done" {
					if t := f.Pkg.TypesInfo.TypeOf(sel.X); t != nil && strings.HasSuffix(t.String(), "message.MessageFuture") {
						found = true
					}
				}
			}
			return !found
		})
		return found
	}
	for dist := 0; dist <= 1 && waiter == nil; dist++ {
		for _, f := range w.SortedFuncs() {
			if core.RecvNamed(f.Obj) != gc || w.IsTestFile(f.Decl.Pos()) || f.Decl.Body == nil || waiter != nil {
				continue
			}
			if dist == 0 && receives(f) {
				waiter = f
			}
			if dist == 1 {
				for _, cs := range w.Calls(f) {
					if h := w.Info(cs.Static); h != nil && h.Pkg == f.Pkg && h != f && h.Decl.Body != nil && !cs.InGo && receives(h) {
						waiter = f
					}
				}
			}
		}
	}
	if r.Anchor("C14.timeout", waiter, "GettyRemotingClient method waiting on MessageFuture.Done") != nil {
		// the timeout arm: every return reached through `<-...After(..)` carries a non-nil error and has deleted
		// from the table the store wrote to (directly or through helpers of the package, analysed in context)
		wsp := &flow.Spec{W: w, Depth: 0, Inline: 3, Classify: func(pkg *packages.Package, call *ast.CallExpr, callee *types.Func) []flow.Tag {
			switch {
			case callee != nil && callee.Name() == "After" && len(call.Args) == 1:
				return []flow.Tag{"timeout"}
			}
			if op, field := mapOp(w, pkg.TypesInfo, call, callee); (op == "Delete" || op == "LoadAndDelete") && field != "" {
				return []flow.Tag{"delete:" + field}
			}
			return nil
		}}
		wres := wsp.Analyze(waiter)
		hasTimeout := false
		for _, ex := range wres.Exits {
			if !ex.St.Has("arm:timeout") {
				continue
			}
			hasTimeout = true
			r.Sites++
			r.Check(ex.Class == flow.ExitErr, "C14.timeout", core.ShortKey(waiter.Obj)+" timeout arm returns an error", w.Pos(ex.Pos), "timeout surfaces as an error", "the timeout arm does not return a non-nil error: the caller would see a nil reply as success")
			var dels []string
			for _, t := range ex.St.MustTags() {
				if strings.HasPrefix(t, "delete:") {
					dels = append(dels, strings.TrimPrefix(t, "delete:"))
				}
			}
			r.Check(ex.St.Has("delete:"+storeField), "C14.table", core.ShortKey(waiter.Obj)+" timeout removes the pending future", w.Pos(ex.Pos), "deletes from "+storeField,
				"the timeout arm deletes from {"+strings.Join(dels, ",")+"} but the future was stored in '"+storeField+"': every timed-out request leaves its future behind and a late reply is delivered to nobody")
		}
		if !hasTimeout {
			r.Bad("C14.timeout", core.ShortKey(waiter.Obj)+" timeout arm returns an error", w.Pos(waiter.Decl.Pos()), "the waiter has no timeout arm: a lost reply parks the caller forever")
		}
	}
	// ---- delivery: looks up the received frame's ID, removes after notifying
	for _, f := range w.SortedFuncs() {
		if w.IsTestFile(f.Decl.Pos()) || !strings.HasSuffix(f.Pkg.PkgPath, "/processor/client") || f.Obj.Name() != "Process" {
			continue
		}
		notifies := false
		for _, cs := range w.Calls(f) {
			if cs.Static != nil && cs.Static.Name() == "NotifyRpcMessageResponse" {
				notifies = true
			}
		}
		if !notifies {
			continue
		}
		r.Fn(f)
		dsp := &flow.Spec{W: w, Split: []flow.Tag{"notify"}, Classify: func(pkg *packages.Package, call *ast.CallExpr, callee *types.Func) []flow.Tag {
			if callee == nil {
				return nil
			}
			switch callee.Name() {
			case "NotifyRpcMessageResponse":
				return []flow.Tag{"notify"}
			case "RemoveMessageFuture":
				return []flow.Tag{"remove"}
			case "GetMessageFuture":
				return []flow.Tag{"lookup"}
			}
			return nil
		}}
		dres := dsp.Analyze(f)
		var rpcParam types.Object
		for _, p := range paramObjs(f) {
			if strings.HasSuffix(p.Type().String(), "message.RpcMessage") {
				rpcParam = p
			}
		}
		for _, cp := range dres.Calls {
			if inSet("notify", cp.Tags...) || (inSet("lookup", cp.Tags...) && !cp.InLoop) {
				r.Sites++
				a := ""
				if len(cp.Call.Args) == 1 {
					a = origin(f, cp.Call.Args[0], 3)
				}
				want := "param:" + rpcParam.Name()
				if inSet("lookup", cp.Tags...) {
					want += ".ID"
				}
				r.Check(a == want, "C14.ids", core.ShortKey(f.Obj)+" -> "+cp.Callee.Name()+" by the received frame's ID", w.Pos(cp.Call.Pos()), a, "delivery uses "+a+" instead of the received message ("+want+")")
			}
		}
		for _, ex := range dres.Exits {
			if ex.St.Has("notify") {
				r.Sites++
				r.Check(ex.St.Has("remove"), "C14.table", core.ShortKey(f.Obj)+" removes the future after notifying", w.Pos(ex.Pos), "notify then remove", "a delivered future stays in the table: a duplicate reply would be delivered again and completed requests leave bookkeeping behind")
			}
		}
	}
	// notify function: looks the future up by the message's ID and sets Response before signalling
	if nf := methodInfo(w, gr, "NotifyRpcMessageResponse"); nf != nil {
		r.Fn(nf)
		ninfo := nf.Pkg.TypesInfo
		okOrder := false
		sawResp := false
		var visit func(n ast.Node) bool
		visit = func(n ast.Node) bool {
			switch x := n.(type) {
			case *ast.AssignStmt:
				for _, l := range x.Lhs {
					if sel, ok := ast.Unparen(l).(*ast.SelectorExpr); ok && sel.Sel.Name == "Response" {
						sawResp = true
					}
				}
			case *ast.SendStmt:
				if sawResp {
					okOrder = true
				}
			case *ast.CallExpr:
				// completion written as a method of the future (f.Complete(body)): its statements, in place
				if g := w.Info(core.Callee(ninfo, x)); g != nil && core.RecvNamed(g.Obj) == mf && g.Decl.Body != nil {
					ast.Inspect(g.Decl.Body, visit)
				}
			}
			return true
		}
		ast.Inspect(nf.Decl.Body, visit)
		r.Sites++
		r.Check(okOrder, "C14.ids", core.ShortKey(nf.Obj)+" sets the response before signalling", w.Pos(nf.Decl.Pos()), "Response assigned before Done is signalled", "the waiter can be woken before the response is stored in its future")
	}
	// ---- one id counter for every message sent with a waiter
	counters := map[string]bool{}
	nWaited := 0
	for _, f := range w.SortedFuncs() {
		if w.IsTestFile(f.Decl.Pos()) || f.Pkg.PkgPath != pGetty {
			continue
		}
		finfo := f.Pkg.TypesInfo
		for _, cs := range w.Calls(f) {
			if core.RecvNamed(cs.Static) != gr || !(cs.Static.Name() == "SendSync" || cs.Static.Name() == "SendAsync") || len(cs.Call.Args) != 3 {
				continue
			}
			if isNilIdent(finfo, cs.Call.Args[2]) {
				continue // no waiter
			}
			if paramByIndex(f, cs.Call.Args[2], finfo) != nil && paramByIndex(f, cs.Call.Args[0], finfo) != nil {
				continue // one send entry point forwarding its own message and callback to the other: checked at its callers
			}
			nWaited++
			r.Sites++
			originFollowSingle = true // the id may come through a one-line helper around the counter
			id, _ := litFieldOrigin(f, cs.Call.Args[0], "ID", 4)
			originFollowSingle = false
			counters[id] = true
			r.Check(strings.Contains(id, ".Inc(recv=") && strings.Contains(id, ".idGenerator"), "C14.ids", core.ShortKey(f.Obj)+" : ID of a waited-for message comes from the client's atomic counter", w.Pos(cs.Call.Pos()), id, "the ID of a message sent with a waiter derives from "+id+", not from the client's atomic id counter")
		}
	}
	// the request-id counter only ever counts up: a Store / Swap / reset while requests are pending makes a later
	// request draw the id of a pending one, whose future it then replaces in the table
	{
		n := 0
		for _, f := range w.SortedFuncs() {
			if w.IsTestFile(f.Decl.Pos()) || !strings.HasSuffix(f.Pkg.PkgPath, "/pkg/remoting/getty") || f.Decl.Body == nil {
				continue
			}
			info := f.Pkg.TypesInfo
			var stack []ast.Node
			ast.Inspect(f.Decl.Body, func(x ast.Node) bool {
				if x == nil {
					stack = stack[:len(stack)-1]
					return true
				}
				stack = append(stack, x)
				sel, ok := x.(*ast.SelectorExpr)
				if !ok || sel.Sel.Name != "idGenerator" {
					return true
				}
				fv, ok := info.Uses[sel.Sel].(*types.Var)
				if !ok || !fv.IsField() {
					return true
				}
				owner := ""
				if t := info.TypeOf(sel.X); t != nil {
					owner = t.String()
				}
				if !strings.HasSuffix(owner, "GettyRemotingClient") {
					return true
				}
				n++
				r.Sites++
				use := "read"
				okUse := true
				if len(stack) >= 3 {
					if ms, ok := stack[len(stack)-2].(*ast.SelectorExpr); ok {
						if _, isCall := stack[len(stack)-3].(*ast.CallExpr); isCall {
							use = ms.Sel.Name
							okUse = inSet(use, "Inc", "Load", "Add")
						}
					}
					if as, ok := stack[len(stack)-2].(*ast.AssignStmt); ok {
						for _, l := range as.Lhs {
							if ast.Unparen(l) == ast.Expr(sel) {
								use, okUse = "assignment", false
							}
						}
					}
				}
				r.Check(okUse, "C14.ids", core.ShortKey(f.Obj)+" : the request-id counter only counts up ("+use+")", w.Pos(sel.Pos()), "Inc / Load only",
					"the request-id counter is changed with '"+use+"' here: ids are shared by every session of the client, so after a reset a new request draws the id of a request still pending and replaces its future — the older caller times out and the newer one receives the older caller's reply")
				return true
			})
		}
		if n == 0 {
			r.Bad("C14.ids", "uses of the request-id counter", "", "no use of GettyRemotingClient.idGenerator found")
		}
	}
	r.Sites++
	r.Check(len(counters) == 1 && nWaited >= 2, "C14.ids", "all waited-for messages share one id counter", "", keysOf(counters), "messages sent with a waiter take their ids from different sources {"+keysOf(counters)+"}: two in-flight requests can carry the same id and receive each other's reply")
	// ---- who may remove a pending future: the waiter's timeout arm, the failed write in the send, and a
	// processor that has just notified that same future. Anything else (a handler for frames whose ids are numbered
	// by another counter, say) can delete the future of an unrelated request that happens to carry the same number.
	{
		n := 0
		for _, f := range w.SortedFuncs() {
			if w.IsTestFile(f.Decl.Pos()) || strings.Contains(f.Pkg.PkgPath, "/mock") {
				continue
			}
			removes := false
			for _, cs := range w.Calls(f) {
				if cs.Static != nil && cs.Static.Name() == "RemoveMessageFuture" && core.RecvNamed(cs.Static) != nil && strings.HasPrefix(core.RecvNamed(cs.Static).Obj().Name(), "GettyRemoting") {
					removes = true
				}
			}
			if !removes || f.Obj.Name() == "RemoveMessageFuture" {
				continue
			}
			n++
			r.Sites++
			r.Fn(f)
			key := core.ShortKey(f.Obj) + " may remove a pending future"
			switch {
			case waiter != nil && (f == waiter || onlyCalledFrom(w, f, waiter, 2)):
				r.OK("C14.table", key, w.Pos(f.Decl.Pos()), "the waiter (timeout arm)")
			default:
				// a processor: every removal is preceded by the notification on the same path
				sp := &flow.Spec{W: w, Classify: func(pkg *packages.Package, call *ast.CallExpr, callee *types.Func) []flow.Tag {
					if callee == nil {
						return nil
					}
					switch callee.Name() {
					case "NotifyRpcMessageResponse":
						return []flow.Tag{"notify"}
					case "RemoveMessageFuture":
						return []flow.Tag{"remove"}
					}
					if completers[callee.Origin()] {
						return []flow.Tag{"notify"} // the future's own completing method
					}
					return nil
				}, StmtTags: func(pkg *packages.Package, st ast.Stmt) []flow.Tag {
					// the merged delivery completes the future by sending on its Done channel directly
					if ss, ok := st.(*ast.SendStmt); ok {
						if sel, ok := ast.Unparen(ss.Chan).(*ast.SelectorExpr); ok && sel.Sel.Name == "Done" {
							return []flow.Tag{"notify"}
						}
					}
					return nil
				}}
				res := sp.Analyze(f)
				ok := true
				for _, cp := range res.Calls {
					if inSet("remove", cp.Tags...) && !cp.Before.Has("notify") {
						ok = false
					}
				}
				r.Check(ok, "C14.table", key, w.Pos(f.Decl.Pos()), "only after notifying that future",
					"this function removes a pending future it has not just delivered: its frames carry ids from another numbering (the heartbeat counter), so it can delete the future of an unrelated request with the same number — that caller then times out although its reply arrives")
			}
		}
		if n < 2 {
			r.Bad("C14.table", "INSTANCE-FLOOR functions removing pending futures", "", "fewer removers than confirmed by hand (waiter, response processor)")
		}
	}
	// ---- every callback handed to the send (a future is stored for it) reaches the waiter, whose timeout arm
	// removes the future: a callback that returns at once leaves the future of a lost reply in the table for good
	if waiter != nil {
		nCb := 0
		for _, f := range w.SortedFuncs() {
			if w.IsTestFile(f.Decl.Pos()) || !strings.HasSuffix(f.Pkg.PkgPath, "/pkg/remoting/getty") {
				continue
			}
			info := f.Pkg.TypesInfo
			for _, cs := range w.Calls(f) {
				if cs.Static == nil || (cs.Static.Name() != "sendAsync" && cs.Static.Name() != "SendAsync" && cs.Static.Name() != "SendSync") || core.RecvNamed(cs.Static) == nil || core.RecvNamed(cs.Static).Obj().Name() != "GettyRemoting" {
					continue
				}
				sig := cs.Static.Type().(*types.Signature)
				for i := 0; i < sig.Params().Len() && i < len(cs.Call.Args); i++ {
					if _, isFn := sig.Params().At(i).Type().Underlying().(*types.Signature); !isFn {
						continue
					}
					arg := ast.Unparen(cs.Call.Args[i])
					if isNilIdent(info, arg) || isObj(info, arg, paramByIndex(f, arg, info)) {
						continue // no waiter: no future is stored; or the caller's own callback parameter (checked at its call sites)
					}
					var cb *types.Func
					switch x := arg.(type) {
					case *ast.SelectorExpr:
						cb, _ = info.Uses[x.Sel].(*types.Func)
					case *ast.Ident:
						cb, _ = info.Uses[x].(*types.Func)
					}
					nCb++
					r.Sites++
					key := core.ShortKey(f.Obj) + " -> " + cs.Static.Name() + " callback " + core.ExprString(arg) + " ends in the waiter"
					if cb == nil || w.Info(cb) == nil {
						r.Undecided("C14.timeout", key, w.Pos(cs.Call.Pos()), "the callback is not a named function of the repository")
						continue
					}
					r.Fn(w.Info(cb))
					reaches := cb == waiter.Obj || w.CallPath(w.Info(cb), func(g *types.Func) bool { return g == waiter.Obj }, 3) != nil
					r.Check(reaches, "C14.timeout", key, w.Pos(cs.Call.Pos()), "the callback waits (or starts a goroutine that waits) with the timeout that removes the future",
						"a future is stored for this request but its callback never reaches "+core.ShortKey(waiter.Obj)+", the only place a timeout removes the future: when the reply is lost the entry stays in the pending table for ever")
				}
			}
		}
		if nCb < 2 {
			r.Bad("C14.timeout", "INSTANCE-FLOOR callbacks handed to the send", "", "fewer than the two callback hand-overs (sync, async) confirmed by hand")
		}
	}
	c14Receivers(r, mf)
	r.Floor("C14.nonblock", 1) // one send when the future completes itself in a method; the delivery-site count above guards the rest
	r.Floor("C14.table", 6)
	r.Floor("C14.ids", 7)
	r.Floor("C14.timeout", 1)
}

// paramByIndex returns the parameter object arg refers to, if arg is an identifier naming a parameter of f.
func paramByIndex(f *core.FuncInfo, arg ast.Expr, info *types.Info) types.Object {
	id, ok := ast.Unparen(arg).(*ast.Ident)
	if !ok {
		return nil
	}
	o := info.Uses[id]
	for _, p := range paramObjs(f) {
		if p == o {
			return p
		}
	}
	return nil
}

// onlyCalledFrom: f has callers, and every one of them is target or (up to depth levels) a function only called
// from target.
func onlyCalledFrom(w *core.World, f, target *core.FuncInfo, depth int) bool {
	if depth < 0 {
		return false
	}
	n := 0
	for _, g := range w.SortedFuncs() {
		if w.IsTestFile(g.Decl.Pos()) || g.Decl.Body == nil {
			continue
		}
		calls := false
		for _, cs := range w.Calls(g) {
			if cs.Static == f.Obj {
				calls = true
			}
			for _, c := range cs.Callees {
				if c == f.Obj {
					calls = true
				}
			}
		}
		if !calls {
			continue
		}
		n++
		if g != target && !onlyCalledFrom(w, g, target, depth-1) {
			return false
		}
	}
	return n > 0
}

// c14Receivers (C14.timeout): the completion token of a future — the one value sent on Done — is taken by the
// requester only. Every receive from MessageFuture.Done is an arm of a blocking select (no default arm) in a
// function that the reply path (the client processors' Process, which notify and then remove the future) does not
// reach: a deliverer or a remover that drains the channel takes the token of a requester that has not begun to wait
// yet, and that requester waits for the whole timeout although its reply arrived.
func c14Receivers(r *core.Run, mf *types.Named) {
	w := r.W
	var roots []*core.FuncInfo
	for _, f := range w.SortedFuncs() {
		if !w.IsTestFile(f.Decl.Pos()) && strings.HasSuffix(f.Pkg.PkgPath, "/processor/client") && f.Obj.Name() == "Process" && f.Decl.Body != nil {
			roots = append(roots, f)
		}
	}
	reply := map[*core.FuncInfo]bool{}
	for _, f := range reachFrom(w, roots, core.Module+"/pkg/remoting", core.Module+"/pkg/protocol") {
		reply[f] = true
	}
	isDone := func(info *types.Info, e ast.Expr) bool {
		u, ok := ast.Unparen(e).(*ast.UnaryExpr)
		if !ok || u.Op != token.ARROW {
			return false
		}
		sel, ok := ast.Unparen(u.X).(*ast.SelectorExpr)
		if !ok {
			return false
		}
		v, ok := info.Uses[sel.Sel].(*types.Var)
		if !ok || !v.IsField() || v.Name() != "Done" {
			return false
		}
		t := info.TypeOf(sel.X)
		if p, isP := t.(*types.Pointer); isP {
			t = p.Elem()
		}
		return t == types.Type(mf)
	}
	n := 0
	for _, f := range w.SortedFuncs() {
		if w.IsTestFile(f.Decl.Pos()) || strings.Contains(f.Pkg.PkgPath, "/mock") || f.Decl.Body == nil {
			continue
		}
		info := f.Pkg.TypesInfo
		// receives that are the communication of a select arm, with that select
		inSelect := map[ast.Expr]*ast.SelectStmt{}
		ast.Inspect(f.Decl.Body, func(nd ast.Node) bool {
			ss, ok := nd.(*ast.SelectStmt)
			if !ok {
				return true
			}
			for _, c := range ss.Body.List {
				cc := c.(*ast.CommClause)
				switch x := cc.Comm.(type) {
				case *ast.ExprStmt:
					inSelect[ast.Unparen(x.X)] = ss
				case *ast.AssignStmt:
					if len(x.Rhs) == 1 {
						inSelect[ast.Unparen(x.Rhs[0])] = ss
					}
				}
			}
			return true
		})
		ast.Inspect(f.Decl.Body, func(nd ast.Node) bool {
			e, ok := nd.(ast.Expr)
			if !ok || !isDone(info, e) {
				return true
			}
			n++
			r.Sites++
			r.Fn(f)
			why := ""
			ss := inSelect[ast.Unparen(e)]
			switch {
			case reply[f]:
				why = "the function is on the reply path (reached from a client processor's Process)"
			case ss == nil:
				why = "the receive is not an arm of a select with a timeout"
			default:
				for _, c := range ss.Body.List {
					if c.(*ast.CommClause).Comm == nil {
						why = "the select has a default arm: it takes the token if it is there and goes on otherwise"
					}
				}
			}
			r.Check(why == "", "C14.timeout", core.ShortKey(f.Obj)+" : the completion token is taken by the waiting requester only", w.Pos(e.Pos()), "blocking select of the waiter, off the reply path",
				why+": a reply handled before its requester started to wait leaves the token in the buffered channel; whoever else receives from it makes that requester wait for the whole timeout and fail, although its own reply arrived")
			return true
		})
	}
	if n == 0 {
		r.Undecided("C14.timeout", "receives from MessageFuture.Done", "", "none found")
	}
}
