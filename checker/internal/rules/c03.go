package rules

import (
	"go/ast"
	"go/constant"
	"go/token"
	"go/types"
	"sort"
	"strconv"
	"strings"

	"golang.org/x/tools/go/packages"

	"seatalint/internal/core"
	"seatalint/internal/flow"
)

func init() { register("C03", checkC03) }

// liveATExecutors: executor implementations constructed by the registered AT SQLExecutor's dispatch
// (and, transitively, by those executors themselves).
func liveATExecutors(w *core.World) (dispatch *core.FuncInfo, live []*types.Named) {
	ex := w.Interface("pkg/datasource/sql/exec/at", "executor")
	exNamed := w.NamedType("pkg/datasource/sql/exec/at", "executor")
	if ex == nil {
		return nil, nil
	}
	sqlEx := w.Interface("pkg/datasource/sql/exec", "SQLExecutor")
	for _, n := range w.Implementers(sqlEx) {
		if n.Obj().Pkg().Path() == pExecAT && !w.IsTestFile(n.Obj().Pos()) {
			dispatch = methodInfo(w, n, "ExecWithNamedValue")
		}
	}
	if dispatch == nil {
		return nil, nil
	}
	impl := map[*types.Named]bool{}
	for _, n := range w.Implementers(ex) {
		if n.Obj().Pkg().Path() == pExecAT && !w.IsTestFile(n.Obj().Pos()) {
			impl[n] = true
		}
	}
	seen := map[*types.Named]bool{}
	visited := map[*core.FuncInfo]bool{}
	var visit func(f *core.FuncInfo, depth int)
	visit = func(f *core.FuncInfo, depth int) {
		if f == nil || depth > 4 {
			return
		}
		for _, cs := range w.Calls(f) {
			c := w.Info(cs.Static)
			if c == nil || c.Pkg.PkgPath != pExecAT || cs.Iface {
				continue
			}
			// a helper of the package that hands back the interface (chooses the executor): the constructors are
			// behind it
			if sig := c.Obj.Type().(*types.Signature); sig.Results().Len() == 1 {
				if rt, ok := sig.Results().At(0).Type().(*types.Named); ok && rt == exNamed && !visited[c] {
					visited[c] = true
					visit(c, depth+1)
				}
			}
			for _, t := range returnedTypes(c) {
				if impl[t] && !seen[t] {
					seen[t] = true
					live = append(live, t)
					for _, m := range reachFrom(w, []*core.FuncInfo{methodInfo(w, t, "ExecContext")}, pExecAT) {
						if core.RecvNamed(m.Obj) == t {
							visit(m, depth+1)
						}
					}
				}
			}
		}
	}
	visit(dispatch, 0)
	sort.Slice(live, func(i, j int) bool { return live[i].Obj().Name() < live[j].Obj().Name() })
	return dispatch, live
}

// lockKeysField returns the LockKeys field of types.TransactionContext.
func lockKeysField(w *core.World) *types.Var {
	n := w.NamedType("pkg/datasource/sql/types", "TransactionContext")
	if n == nil {
		return nil
	}
	st, _ := n.Underlying().(*types.Struct)
	for i := 0; st != nil && i < st.NumFields(); i++ {
		if st.Field(i).Name() == "LockKeys" {
			return st.Field(i)
		}
	}
	return nil
}

// isLockKeyStore reports `<x>.LockKeys[k] = v` and returns k.
func isLockKeyStore(info *types.Info, as *ast.AssignStmt, fld *types.Var) ast.Expr {
	for _, l := range as.Lhs {
		ix, ok := ast.Unparen(l).(*ast.IndexExpr)
		if !ok {
			continue
		}
		sel, ok := ast.Unparen(ix.X).(*ast.SelectorExpr)
		if ok && info.Uses[sel.Sel] == fld {
			return ix.Index
		}
	}
	return nil
}

// lockKeyBuilder: function of exec/at taking a record image (or driver rows) and table meta, returning the key text.
func isLockKeyBuilder(f *types.Func) bool {
	if f == nil || f.Pkg() == nil || f.Pkg().Path() != pExecAT {
		return false
	}
	sig := f.Type().(*types.Signature)
	if sig.Results().Len() != 1 || sig.Params().Len() != 2 {
		return false
	}
	if b, ok := sig.Results().At(0).Type().(*types.Basic); !ok || b.Kind() != types.String {
		return false
	}
	p0 := sig.Params().At(0).Type().String()
	p1 := sig.Params().At(1).Type().String()
	return (strings.HasSuffix(p0, "types.RecordImage") || p0 == "database/sql/driver.Rows") && strings.HasSuffix(p1, "types.TableMeta")
}

func isRoundImagesAppend(f *types.Func) bool {
	return f != nil && core.RecvNamed(f) != nil && core.RecvNamed(f).Obj().Name() == "RoundRecordImage" && core.RecvNamed(f).Obj().Pkg().Path() == pTypes && strings.HasPrefix(f.Name(), "Append")
}

func checkC03(r *core.Run) {
	r.Explain = "Decided statically: (C03.pure) no function of a live AT executor consults package-level state that request paths mutate (lock keys and images depend on the statement and the rows only); (C03.everyexec) every live AT executor that appends images to the transaction context reaches its append only through the nil-error edge of an image step that stores a lock key built by the lock-key builder from the image it returns, on every path that returns a non-nil image; (C03.format) all lock-key builders use exactly ':' after the table, '_' between key parts, ',' between rows and take the key order from TableMeta.GetPrimaryKeyOnlyName, and the register step joins keys with ';'; (C03.sendall) the register step loops over all collected lock keys without break/continue/return and stores the joined text into BranchRegisterParam.LockKeys before BranchRegister, guarded only by the AT-mode test; (C03.sfu) the select-for-update executor returns rows only after LockQuery answered (true,nil) and rolls back (savepoint or transaction) before returning an error once the business query ran. NOT decided: that the key set equals the rows the statement really changed (database effects), key text for every value type, interleavings of two transactions."
	r.Explain += " Round 8: (C03.format, also) the table-metadata refresh stores each reloaded entry under the upper-cased table name the entry itself carries, and no slice of parser-AST nodes (the image query's field list) is appended to inside a range over a map — the column order of an image query is fixed."
	r.Trusted = []string{"go/types, go/cfg", "CHA over repository types"}
	w := r.W
	fld := lockKeysField(w)
	dispatch, live := liveATExecutors(w)
	if fld == nil || dispatch == nil || len(live) == 0 {
		r.Anchor("C03.anchor", nil, "TransactionContext.LockKeys field and the AT executor dispatch with its executors")
		return
	}
	r.Fn(dispatch)
	{
		var ex []*core.FuncInfo
		for _, t := range live {
			if m := methodInfo(w, t, "ExecContext"); m != nil {
				ex = append(ex, m)
			}
		}
		pureOfRuntimeState(r, "C03.pure", "the executor (images, lock keys)", append(ex, reachFrom(w, ex, pExecAT)...), nil)
		r.Floor("C03.pure", 20)
		// the table name that heads every lock key is TableMeta.TableName, which is whatever name the meta cache
		// asked the loader for: the cache must load an entry under its own (normalised) key, otherwise the key text
		// of one row depends on how the statement that happened to fill the entry spelled the table
		c03MetaKey(r)
		c03FixedOrder(r)
		// the combined image query of a multi-statement decides the lock keys as well
		c18Sticky(r, live, "C03.sticky")
		r.Floor("C03.sticky", 1)
	}
	assignTags := func(pkg *packages.Package, as *ast.AssignStmt) []flow.Tag {
		if isLockKeyStore(pkg.TypesInfo, as, fld) != nil {
			return []flow.Tag{"lockstore"}
		}
		return nil
	}
	// functions that store a lock key
	lockFns := map[*types.Func]bool{}
	for _, f := range w.SortedFuncs() {
		if f.Pkg.PkgPath != pExecAT || w.IsTestFile(f.Decl.Pos()) {
			continue
		}
		has := false
		ast.Inspect(f.Decl.Body, func(n ast.Node) bool {
			if as, ok := n.(*ast.AssignStmt); ok && isLockKeyStore(f.Pkg.TypesInfo, as, fld) != nil {
				has = true
			}
			return true
		})
		if has {
			lockFns[f.Obj] = true
		}
	}
	// a storing helper: stores the builder's key for an image it is handed as a parameter (and returns no image
	// itself); its callers are then the functions that "store the key of the image they return"
	storeHelper := map[*types.Func]int{}
	for _, f := range w.SortedFuncs() {
		if !lockFns[f.Obj] {
			continue
		}
		if f.Obj.Type().(*types.Signature).Results().Len() != 0 {
			continue
		}
		ast.Inspect(f.Decl.Body, func(n ast.Node) bool {
			as, ok := n.(*ast.AssignStmt)
			if !ok {
				return true
			}
			k := isLockKeyStore(f.Pkg.TypesInfo, as, fld)
			if k == nil {
				return true
			}
			if okKey, imgArg := lockKeyFromBuilder(f, k); okKey {
				for i, p := range paramObjs(f) {
					if p.Name() == imgArg {
						storeHelper[f.Obj] = i
					}
				}
			}
			return true
		})
	}
	for _, f := range w.SortedFuncs() {
		if f.Pkg.PkgPath != pExecAT || w.IsTestFile(f.Decl.Pos()) || lockFns[f.Obj] {
			continue
		}
		for _, cs := range w.Calls(f) {
			if _, ok := storeHelper[cs.Static]; ok {
				lockFns[f.Obj] = true
			}
		}
	}
	reachLock := newReach(w, 3, func(f *types.Func) bool { _, isHelper := storeHelper[f]; return lockFns[f] && !isHelper })
	nWriters := 0
	for _, t := range live {
		ec := methodInfo(w, t, "ExecContext")
		if ec == nil {
			continue
		}
		appends := false
		for _, cs := range w.Calls(ec) {
			if isRoundImagesAppend(cs.Static) {
				appends = true
			}
		}
		if !appends {
			continue
		}
		nWriters++
		r.Fn(ec)
		sp := &flow.Spec{W: w, Depth: 0, Classify: func(pkg *packages.Package, call *ast.CallExpr, callee *types.Func) []flow.Tag {
			if isRoundImagesAppend(callee) {
				return []flow.Tag{"append"}
			}
			if callee != nil && callee.Pkg() != nil && callee.Pkg().Path() == pExecAT && reachLock.Hits(callee) {
				return []flow.Tag{"imgstep"}
			}
			return nil
		}}
		res := sp.Analyze(ec)
		for _, cp := range res.Calls {
			if !inSet("append", cp.Tags...) {
				continue
			}
			r.Sites++
			key := core.ShortKey(ec.Obj) + " -> " + core.ShortKey(cp.Callee)
			r.Check(cp.Before.Has("ok:imgstep"), "C03.everyexec", key, w.Pos(cp.Call.Pos()),
				"images are recorded only after an image step that stores the rows' lock key succeeded",
				"images are appended to the transaction context on a path where no lock-key-storing image step has succeeded: rows would be written without a global lock key")
		}
	}
	// every lock-storing function reachable from a live executor: the store dominates each non-nil image return, key built from the returned image
	var liveRoots []*core.FuncInfo
	for _, t := range live {
		liveRoots = append(liveRoots, methodInfo(w, t, "ExecContext"))
	}
	for _, f := range reachFrom(w, liveRoots, pExecAT) {
		if !lockFns[f.Obj] {
			continue
		}
		r.Fn(f)
		info := f.Pkg.TypesInfo
		if _, isHelper := storeHelper[f.Obj]; isHelper {
			// the helper: the key it stores is the builder's result for the image it was handed
			ast.Inspect(f.Decl.Body, func(n ast.Node) bool {
				if as, ok := n.(*ast.AssignStmt); ok {
					if k := isLockKeyStore(info, as, fld); k != nil {
						r.Sites++
						okKey, imgArg := lockKeyFromBuilder(f, k)
						r.Check(okKey, "C03.everyexec", core.ShortKey(f.Obj)+" : LockKeys[key] key origin", w.Pos(as.Pos()), "the stored key is the lock-key builder's result for "+imgArg,
							"the stored lock key is not the result of the lock-key builder applied to an image")
					}
				}
				return true
			})
			continue
		}
		var helperImg []string // image expressions handed to a storing helper
		sp := &flow.Spec{W: w, Depth: 0, Inline: -1, AssignTags: assignTags, Classify: func(pkg *packages.Package, call *ast.CallExpr, callee *types.Func) []flow.Tag {
			if idx, ok := storeHelper[callee]; ok && idx < len(call.Args) {
				helperImg = append(helperImg, core.ExprString(call.Args[idx]))
				return []flow.Tag{"lockstore"}
			}
			return nil
		}}
		res := sp.Analyze(f)
		for _, imgArg := range uniq(helperImg) {
			r.Sites++
			returned := false
			for _, ex := range res.Exits {
				if len(ex.Results) > 0 && (core.ExprString(ex.Results[0]) == imgArg || derivesFromName(f, ex.Results[0], imgArg, 2)) {
					returned = true
				}
			}
			r.Check(returned, "C03.everyexec", core.ShortKey(f.Obj)+" : key built from the returned image", w.Pos(f.Decl.Pos()),
				"lock key is built from the image this function returns", "the lock key is built from "+imgArg+", which is not the image this function returns")
		}
		for _, ex := range res.Exits {
			if ex.Class == flow.ExitErr || len(ex.Results) == 0 || isNilIdent(info, ex.Results[0]) {
				continue
			}
			r.Sites++
			key := core.ShortKey(f.Obj) + " return of an image [" + ex.Class + "]"
			r.Check(ex.St.Has("lockstore"), "C03.everyexec", key, w.Pos(ex.Pos), "every path returning an image has stored its lock key",
				"an image is returned on a path that did not store the lock key of its rows")
		}
		for _, ap := range res.Assigns {
			r.Sites++
			k := isLockKeyStore(info, ap.Stmt, fld)
			okKey, imgArg := lockKeyFromBuilder(f, k)
			key := core.ShortKey(f.Obj) + " : LockKeys[key] key origin"
			r.Check(okKey, "C03.everyexec", key, w.Pos(ap.Stmt.Pos()), "the stored key is the lock-key builder's result for "+imgArg,
				"the stored lock key is not the result of the lock-key builder applied to an image")
			if okKey && len(res.Exits) > 0 {
				// the image fed to the builder is the one returned
				returned := false
				for _, ex := range res.Exits {
					if len(ex.Results) > 0 && (core.ExprString(ex.Results[0]) == imgArg || derivesFromName(f, ex.Results[0], imgArg, 2)) {
						returned = true
					}
				}
				r.Check(returned, "C03.everyexec", core.ShortKey(f.Obj)+" : key built from the returned image", w.Pos(ap.Stmt.Pos()),
					"lock key is built from the image this function returns", "the lock key is built from "+imgArg+", which is not the image this function returns")
			}
		}
	}
	if nWriters < 6 {
		r.Bad("C03.everyexec", "INSTANCE-FLOOR live image-writing executors", w.Pos(dispatch.Decl.Pos()), "fewer image-writing executors than confirmed by hand (insert, update, delete, insert-on-duplicate, multi, multi-update, multi-delete)")
	}
	c03Format(r)
	c03SendAll(r, fld)
	c03SFU(r, live)
	r.Floor("C03.everyexec", 20)
	r.Floor("C03.format", 5)
	r.Floor("C03.sendall", 3)
	r.Floor("C03.sfu", 3)
}

// lockKeyFromBuilder: key expression k is (a variable defined once as) builder(img, meta); returns the image argument text.
func lockKeyFromBuilder(f *core.FuncInfo, k ast.Expr) (bool, string) {
	info := f.Pkg.TypesInfo
	var call *ast.CallExpr
	switch x := ast.Unparen(k).(type) {
	case *ast.CallExpr:
		call = x
	case *ast.Ident:
		obj := info.Uses[x]
		n := 0
		ast.Inspect(f.Decl.Body, func(m ast.Node) bool {
			as, ok := m.(*ast.AssignStmt)
			if !ok {
				return true
			}
			for i, l := range as.Lhs {
				if id, ok := l.(*ast.Ident); ok && (info.Defs[id] == obj || info.Uses[id] == obj) && len(as.Rhs) == len(as.Lhs) {
					n++
					if c, ok := ast.Unparen(as.Rhs[i]).(*ast.CallExpr); ok {
						call = c
					}
				}
			}
			return true
		})
		if n != 1 {
			return false, ""
		}
	}
	if call == nil || !isLockKeyBuilder(core.Callee(info, call)) || len(call.Args) < 1 {
		return false, ""
	}
	return true, core.ExprString(call.Args[0])
}

// C03.format: sibling agreement of the lock-key builders.
func c03Format(r *core.Run) {
	w := r.W
	n := 0
	for _, f := range w.SortedFuncs() {
		if !isLockKeyBuilder(f.Obj) || w.IsTestFile(f.Decl.Pos()) {
			continue
		}
		// live only: called from somewhere in non-test code
		called := false
		for _, cs := range w.Callers(f.Obj) {
			if !w.IsTestFile(cs.Call.Pos()) {
				called = true
			}
		}
		if !called {
			continue
		}
		n++
		r.Fn(f)
		seps := map[string]bool{}
		pkOrder := false
		ast.Inspect(f.Decl.Body, func(x ast.Node) bool {
			c, ok := x.(*ast.CallExpr)
			if !ok {
				return true
			}
			callee := core.Callee(f.Pkg.TypesInfo, c)
			if callee != nil && callee.Name() == "GetPrimaryKeyOnlyName" && core.RecvNamed(callee) != nil && core.RecvNamed(callee).Obj().Name() == "TableMeta" {
				pkOrder = true
			}
			return true
		})
		// what the builder writes into the key text, in order, through the helpers of the package it writes with
		writes := keyWrites(w, f)
		for _, kw := range writes {
			if kw.Const != nil {
				seps[*kw.Const] = true
			}
		}
		var got []string
		for s := range seps {
			got = append(got, s)
		}
		sort.Strings(got)
		key := core.ShortKey(f.Obj)
		r.Sites++
		r.Check(strings.Join(got, " ") == ", : _", "C03.format", key+" : separators", w.Pos(f.Decl.Pos()), "separators are ':' ',' '_'",
			"lock-key builder writes the constant separators {"+strings.Join(got, " ")+"}; the coordinator's format is table ':' pk ['_' pk2] {',' row}: the same row would yield a different key text")
		r.Check(pkOrder, "C03.format", key+" : key order", w.Pos(f.Decl.Pos()), "key order from TableMeta.GetPrimaryKeyOnlyName", "lock-key builder does not take the primary-key order from TableMeta.GetPrimaryKeyOnlyName")
		c03KeyPartText(r, f, key, writes)
		// ':' is written after the table name (first two writes)
		var first []string
		for _, kw := range writes {
			if len(first) == 2 {
				break
			}
			if kw.Const != nil {
				first = append(first, strconv.Quote(*kw.Const))
			} else {
				first = append(first, originVia(f, kw.Fn, kw.Arg, 4))
			}
		}
		r.Check(len(first) == 2 && strings.HasSuffix(first[0], ".TableName") && first[1] == `":"`, "C03.format", key+" : prefix", w.Pos(f.Decl.Pos()), "key starts with table name then ':'",
			"the key does not start with the table name followed by ':' (first writes: "+strings.Join(first, ", ")+")")
	}
	if n < 2 {
		r.Anchor("C03.format", nil, "two live lock-key builders (DML images and select-for-update rows)")
	}
}

func firstWrites(f *core.FuncInfo, n int) []string {
	var out []string
	for _, s := range f.Decl.Body.List {
		es, ok := s.(*ast.ExprStmt)
		if !ok {
			continue
		}
		c, ok := es.X.(*ast.CallExpr)
		if !ok || len(c.Args) != 1 {
			continue
		}
		if sel, ok := c.Fun.(*ast.SelectorExpr); ok && sel.Sel.Name == "WriteString" {
			// a constant (literal or named) is rendered by its value, so that naming the separator changes nothing
			if v := core.ConstVal(f.Pkg.TypesInfo, c.Args[0]); v != nil && v.Kind() == constant.String {
				out = append(out, strconv.Quote(constant.StringVal(v)))
			} else {
				out = append(out, core.ExprString(c.Args[0]))
			}
			if len(out) == n {
				break
			}
		}
	}
	return out
}

// C03.sendall
// keyJoin describes a loop that joins all elements of a collection into one text.
type keyJoin struct {
	fn     *core.FuncInfo
	loop   *ast.RangeStmt
	sep    string
	early  string       // break / continue / return inside the loop
	result types.Object // accumulator variable (string, strings.Builder / bytes.Buffer, or slice later joined)
	ok     bool         // every iteration appends the ranged element
}

// findKeyJoin recognises, in fn, the loop ranging over `over` (a field selector or a parameter object) and the way
// its elements are accumulated. Idioms: acc += k + sep / acc = acc + k + sep; b.WriteString(k) with
// b.WriteString(sep) / WriteByte / WriteRune; parts = append(parts, k) with strings.Join(parts, sep) after the loop.
func findKeyJoin(fn *core.FuncInfo, isOver func(e ast.Expr) bool) *keyJoin {
	info := fn.Pkg.TypesInfo
	var rs *ast.RangeStmt
	ast.Inspect(fn.Decl.Body, func(n ast.Node) bool {
		if x, ok := n.(*ast.RangeStmt); ok && isOver(x.X) {
			rs = x
		}
		return true
	})
	if rs == nil {
		return nil
	}
	kj := &keyJoin{fn: fn, loop: rs}
	ast.Inspect(rs.Body, func(n ast.Node) bool {
		switch x := n.(type) {
		case *ast.BranchStmt:
			kj.early = x.Tok.String()
		case *ast.ReturnStmt:
			kj.early = "return"
		case *ast.FuncLit:
			return false
		}
		return true
	})
	kObj := core.ObjOf(info, rs.Key)
	if _, isMap := info.TypeOf(rs.X).Underlying().(*types.Map); !isMap && rs.Value != nil {
		kObj = core.ObjOf(info, rs.Value)
	}
	if kObj == nil {
		return kj
	}
	constStr := func(e ast.Expr) (string, bool) {
		if v := core.ConstVal(info, e); v != nil {
			switch v.Kind() {
			case constant.String:
				return constant.StringVal(v), true
			case constant.Int:
				if i, ok := constant.Int64Val(v); ok && i > 0 && i < 128 {
					return string(rune(i)), true
				}
			}
		}
		return "", false
	}
	wroteKey := false
	var sliceAcc types.Object
	for _, st := range rs.Body.List { // top-level statements of the body only: unconditional in every iteration
		switch x := st.(type) {
		case *ast.AssignStmt:
			if len(x.Lhs) != 1 || len(x.Rhs) != 1 {
				continue
			}
			lhs := core.ObjOf(info, x.Lhs[0])
			if lhs == nil || !mentions(info, x.Rhs[0], kObj) {
				continue
			}
			if c, ok := ast.Unparen(x.Rhs[0]).(*ast.CallExpr); ok {
				if id, ok := ast.Unparen(c.Fun).(*ast.Ident); ok && id.Name == "append" && len(c.Args) >= 2 && isObj(info, c.Args[0], lhs) {
					sliceAcc, wroteKey = lhs, true
					continue
				}
			}
			if x.Tok == token.ADD_ASSIGN || mentions(info, x.Rhs[0], lhs) {
				kj.result, wroteKey = lhs, true
				ast.Inspect(x.Rhs[0], func(n ast.Node) bool {
					if e, ok := n.(ast.Expr); ok {
						if sv, ok := constStr(e); ok {
							kj.sep += sv
							return false
						}
					}
					return true
				})
			}
		case *ast.ExprStmt:
			c, ok := ast.Unparen(x.X).(*ast.CallExpr)
			if !ok || len(c.Args) != 1 {
				continue
			}
			sel, ok := ast.Unparen(c.Fun).(*ast.SelectorExpr)
			if !ok || !strings.HasPrefix(sel.Sel.Name, "Write") {
				continue
			}
			b := core.ObjOf(info, sel.X)
			if b == nil {
				continue
			}
			if isObj(info, c.Args[0], kObj) {
				kj.result, wroteKey = b, true
			} else if sv, ok := constStr(c.Args[0]); ok && (kj.result == nil || kj.result == b) {
				kj.sep += sv
			}
		}
	}
	if sliceAcc != nil {
		// strings.Join(parts, sep) after the loop
		ast.Inspect(fn.Decl.Body, func(n ast.Node) bool {
			c, ok := n.(*ast.CallExpr)
			if !ok || c.Pos() < rs.End() || len(c.Args) != 2 {
				return true
			}
			if g := core.Callee(info, c); g != nil && g.Pkg() != nil && g.Pkg().Path() == "strings" && g.Name() == "Join" && isObj(info, c.Args[0], sliceAcc) {
				if sv, ok := constStr(c.Args[1]); ok {
					kj.sep = sv + "(join)"
					kj.result = sliceAcc
				}
			}
			return true
		})
	}
	kj.ok = wroteKey && kj.result != nil
	return kj
}

func c03SendAll(r *core.Run, fld *types.Var) {
	w := r.W
	var regFns []*core.FuncInfo
	for _, f := range w.SortedFuncs() {
		if f.Pkg.PkgPath != pDSSQL || w.IsTestFile(f.Decl.Pos()) {
			continue
		}
		for _, cs := range w.Calls(f) {
			if isBranchRegister(w, cs.Static) {
				regFns = append(regFns, f)
				break
			}
		}
	}
	// the function that calls BranchRegister with the collected keys: it mentions the LockKeys field
	var keep []*core.FuncInfo
	for _, f := range dedupFns(regFns) {
		uses := false
		ast.Inspect(f.Decl.Body, func(n ast.Node) bool {
			if sel, ok := n.(*ast.SelectorExpr); ok && f.Pkg.TypesInfo.Uses[sel.Sel] == fld {
				uses = true
			}
			return !uses
		})
		if uses {
			keep = append(keep, f)
		}
	}
	// (the request may be built by a helper of the package that reads the keys and hands the request to the
	// function calling BranchRegister: the helper is where the keys are joined and stored)
	builder := map[*core.FuncInfo]*core.FuncInfo{} // helper -> the function that registers what it builds
	if len(keep) == 0 {
		for _, f := range dedupFns(regFns) {
			for _, cs := range w.Calls(f) {
				h := w.Info(cs.Static)
				if h == nil || h.Pkg != f.Pkg || h == f || h.Decl.Body == nil {
					continue
				}
				uses := false
				ast.Inspect(h.Decl.Body, func(n ast.Node) bool {
					if sel, ok := n.(*ast.SelectorExpr); ok && h.Pkg.TypesInfo.Uses[sel.Sel] == fld {
						uses = true
					}
					return !uses
				})
				if !uses {
					continue
				}
				// its result is what BranchRegister is handed
				handed := false
				for _, cs2 := range w.Calls(f) {
					if isBranchRegister(w, cs2.Static) {
						for _, a := range cs2.Call.Args {
							if strings.Contains(origin(f, a, 4), "call:"+core.ShortKey(h.Obj)+"(") {
								handed = true
							}
						}
					}
				}
				if handed {
					keep = append(keep, h)
					builder[h] = f
				}
			}
		}
	}
	if len(keep) == 0 {
		r.Anchor("C03.sendall", nil, "function in pkg/datasource/sql that reads TransactionContext.LockKeys and calls BranchRegister")
		return
	}
	for _, f := range keep {
		r.Fn(f)
		info := f.Pkg.TypesInfo
		key := core.ShortKey(f.Obj)
		isFld := func(e ast.Expr) bool {
			sel, ok := ast.Unparen(e).(*ast.SelectorExpr)
			return ok && info.Uses[sel.Sel] == fld
		}
		// the join: in f itself, or in a helper of the package that f hands the LockKeys collection to
		kj := findKeyJoin(f, isFld)
		var viaHelper *types.Func
		if kj == nil {
			for _, cs := range w.Calls(f) {
				h := w.Info(cs.Static)
				if h == nil || h.Pkg != f.Pkg {
					continue
				}
				for ai, a := range cs.Call.Args {
					if !isFld(a) {
						continue
					}
					ps := paramObjs(h)
					if ai >= len(ps) {
						continue
					}
					pobj := ps[ai]
					if hj := findKeyJoin(h, func(e ast.Expr) bool { return isObj(h.Pkg.TypesInfo, e, pobj) }); hj != nil {
						// the helper must return the joined text
						returns := false
						ast.Inspect(h.Decl.Body, func(n ast.Node) bool {
							if rs, ok := n.(*ast.ReturnStmt); ok && len(rs.Results) == 1 && hj.result != nil && mentions(h.Pkg.TypesInfo, rs.Results[0], hj.result) {
								returns = true
							}
							return true
						})
						if returns {
							kj, viaHelper = hj, cs.Static
							r.Fn(h)
						}
					}
				}
			}
		}
		if kj == nil {
			r.Bad("C03.sendall", key+" : loop visits every key", w.Pos(f.Decl.Pos()), "no loop over the collected lock keys found in the register step or in a helper it hands them to")
			continue
		}
		r.Sites++
		r.Check(kj.early == "", "C03.sendall", key+" : loop visits every key", w.Pos(kj.loop.Pos()), "the loop over LockKeys has no break/continue/return", "the loop over the collected lock keys contains '"+kj.early+"': some keys may not be sent")
		r.Check(kj.ok, "C03.sendall", key+" : every key accumulated", w.Pos(kj.loop.Pos()), "each key is appended to the accumulator", "the loop body does not append the ranged key to an accumulator unconditionally")
		sep := strings.TrimSuffix(kj.sep, "(join)")
		okSep := kj.sep == ";" // every key terminated by ';' (a plain strings.Join leaves the last one unterminated, which the coordinator accepts as well)
		if strings.HasSuffix(kj.sep, "(join)") {
			okSep = sep == ";"
		}
		r.Check(okSep, "C03.format", key+" : keys joined with ';'", w.Pos(kj.loop.Pos()), "keys joined with ';'", "keys are joined with '"+sep+"' instead of ';'")
		// the joined text is stored into the request's LockKeys before BranchRegister; guards only test the transaction mode
		isJoined := func(pkg *packages.Package, e ast.Expr) bool {
			if viaHelper != nil {
				if c, ok := ast.Unparen(e).(*ast.CallExpr); ok && core.Callee(pkg.TypesInfo, c) == viaHelper {
					return true
				}
				// through a local that holds the helper's result
				if id, ok := ast.Unparen(e).(*ast.Ident); ok {
					if v, ok := pkg.TypesInfo.Uses[id].(*types.Var); ok {
						for _, d := range localDefs(f, v) {
							if c, ok := ast.Unparen(d.rhs).(*ast.CallExpr); ok && core.Callee(pkg.TypesInfo, c) == viaHelper {
								return true
							}
						}
					}
				}
				return false
			}
			return kj.result != nil && mentions(pkg.TypesInfo, e, kj.result)
		}
		sp := &flow.Spec{W: w, Depth: 0, Inline: -1,
			Classify: func(pkg *packages.Package, call *ast.CallExpr, callee *types.Func) []flow.Tag {
				if isBranchRegister(w, callee) {
					return []flow.Tag{"register"}
				}
				return nil
			},
			AssignTags: func(pkg *packages.Package, as *ast.AssignStmt) []flow.Tag {
				for i, l := range as.Lhs {
					if sel, ok := ast.Unparen(l).(*ast.SelectorExpr); ok && sel.Sel.Name == "LockKeys" && i < len(as.Rhs) && isJoined(pkg, as.Rhs[i]) {
						if v, ok := pkg.TypesInfo.Uses[sel.Sel].(*types.Var); ok && v.IsField() && v != fld {
							return []flow.Tag{"keysset"}
						}
					}
				}
				return nil
			}}
		res := sp.Analyze(f)
		for _, cp := range res.Calls {
			r.Sites++
			// the argument is the request variable whose LockKeys was set
			r.Check(cp.Before.Maybe("keysset"), "C03.sendall", key+" -> BranchRegister : LockKeys set", w.Pos(cp.Call.Pos()), "the joined keys reach BranchRegisterParam.LockKeys before the call",
				"BranchRegister is called without the joined lock keys having been stored in the request")
		}
		if reg := builder[f]; reg != nil {
			// the builder hands back the request with the keys stored (on some path: only AT mode has keys)
			stored := false
			for _, ex := range res.Exits {
				if ex.St.Maybe("keysset") {
					stored = true
				}
			}
			r.Sites++
			r.Fn(reg)
			r.Check(stored, "C03.sendall", key+" -> BranchRegister : LockKeys set", w.Pos(f.Decl.Pos()), "the joined keys reach BranchRegisterParam.LockKeys before the request is handed back to "+core.ShortKey(reg.Obj),
				"the request is handed back for BranchRegister without the joined lock keys having been stored in it")
		}
		for _, ap := range res.Assigns {
			r.Sites++
			okGuard := true
			st := enclosing(f.Decl.Body, ap.Stmt)
			for i := 0; i+1 < len(st); i++ {
				if ifs, ok := st[i].(*ast.IfStmt); ok && st[i+1] == ifs.Body {
					if !modeTestOnlyIn(f, info, ifs.Cond) {
						okGuard = false
					}
				}
			}
			r.Check(okGuard && !ap.InLoop, "C03.sendall", key+" : LockKeys store guarded by the AT-mode test only", w.Pos(ap.Stmt.Pos()), "store depends only on the transaction mode", "the store of the lock keys into the request is under a condition other than the AT-mode test (or inside a loop)")
		}
	}
}

// c03FixedOrder (C03.format): the columns of an image query come in a fixed order — the lock-key builders write the
// key parts in image-column order, so the same row must yield the same column order whatever statement touched it.
// No list of statement-AST nodes (select fields, by-items, expressions of the image SELECT) is appended to inside a
// loop over a map: Go's map iteration order differs from run to run.
func c03FixedOrder(r *core.Run) {
	w := r.W
	_, live := liveATExecutors(w)
	var roots []*core.FuncInfo
	for _, t := range live {
		roots = append(roots, methodInfo(w, t, "ExecContext"))
	}
	n := 0
	for _, f := range reachFrom(w, roots, pExecAT) {
		if w.IsTestFile(f.Decl.Pos()) || f.Decl.Body == nil {
			continue
		}
		info := f.Pkg.TypesInfo
		ast.Inspect(f.Decl.Body, func(nd ast.Node) bool {
			as, ok := nd.(*ast.AssignStmt)
			if !ok || len(as.Rhs) != 1 {
				return true
			}
			c, ok := ast.Unparen(as.Rhs[0]).(*ast.CallExpr)
			if !ok || len(c.Args) < 2 {
				return true
			}
			if id, ok := ast.Unparen(c.Fun).(*ast.Ident); !ok || id.Name != "append" {
				return true
			}
			sl, ok := info.TypeOf(c.Args[0]).Underlying().(*types.Slice)
			if !ok {
				return true
			}
			el := sl.Elem()
			if p, isP := el.(*types.Pointer); isP {
				el = p.Elem()
			}
			nt, ok := el.(*types.Named)
			if !ok || nt.Obj().Pkg() == nil || nt.Obj().Pkg().Path() != pParserAST {
				return true
			}
			n++
			r.Sites++
			r.Fn(f)
			overMap := ""
			for _, anc := range enclosing(f.Decl.Body, as) {
				if rs, isR := anc.(*ast.RangeStmt); isR && as.Pos() >= rs.Body.Pos() && as.End() <= rs.Body.End() {
					if _, isMap := info.TypeOf(rs.X).Underlying().(*types.Map); isMap {
						overMap = core.ExprString(rs.X)
					}
				}
			}
			r.Check(overMap == "", "C03.format", core.ShortKey(f.Obj)+" : "+core.ExprString(c.Args[0])+" is built in a fixed order", w.Pos(as.Pos()), "not appended to inside a loop over a map",
				"the list "+core.ExprString(c.Args[0])+" of the image query is appended to while ranging over the map "+overMap+": the column order changes from run to run, and with it the order of the key parts in the lock key — one row gets the keys 't:1_a' and 't:a_1', which the coordinator takes for two rows")
			return true
		})
	}
	if n == 0 {
		r.Undecided("C03.format", "lists of statement-AST nodes built by the AT executors", "", "none found")
	}
}

// modeTestOnly: cond compares a TransactionMode / BranchType value with a named constant.
func modeTestOnly(info *types.Info, cond ast.Expr) bool {
	return modeTestOnlyIn(nil, info, cond)
}

// modeTestOnlyIn: cond is the AT-mode test, or a bool variable of f assigned once from it (isAT := bt == BranchTypeAT)
func modeTestOnlyIn(f *core.FuncInfo, info *types.Info, cond ast.Expr) bool {
	if id, ok := ast.Unparen(cond).(*ast.Ident); ok && f != nil {
		if v, ok := info.Uses[id].(*types.Var); ok {
			if defs := localDefs(f, v); len(defs) == 1 && !defs[0].rng {
				return modeTestOnlyIn(nil, info, defs[0].rhs)
			}
		}
		return false
	}
	be, ok := ast.Unparen(cond).(*ast.BinaryExpr)
	if !ok || be.Op != token.EQL {
		return false
	}
	c := core.ConstObj(info, be.Y)
	if c == nil {
		return false
	}
	return inSet(c.Name(), "ATMode", "BranchTypeAT")
}

func rangesOver(f *core.FuncInfo, fld *types.Var) *ast.RangeStmt {
	var out *ast.RangeStmt
	ast.Inspect(f.Decl.Body, func(n ast.Node) bool {
		rs, ok := n.(*ast.RangeStmt)
		if !ok {
			return true
		}
		if sel, ok := ast.Unparen(rs.X).(*ast.SelectorExpr); ok && f.Pkg.TypesInfo.Uses[sel.Sel] == fld {
			out = rs
		}
		return true
	})
	return out
}

// C03.sfu
func c03SFU(r *core.Run, live []*types.Named) {
	w := r.W
	var sfu *types.Named
	for _, t := range live {
		ec := methodInfo(w, t, "ExecContext")
		if ec != nil && w.CallPath(ec, func(f *types.Func) bool { return isLockQuery(w, f) }, 3) != nil {
			sfu = t
		}
	}
	if sfu == nil {
		r.Anchor("C03.sfu", nil, "live AT executor whose ExecContext reaches LockQuery")
		return
	}
	ec := methodInfo(w, sfu, "ExecContext")
	r.Fn(ec)
	// inner function: the one that runs the business statement (calls its function-typed parameter) and from which
	// LockQuery is reached — directly or through helpers of the package, which are analysed in its context
	var inner *core.FuncInfo
	lqReach := newReach(w, 3, func(f *types.Func) bool { return isLockQuery(w, f) })
	for _, f := range append(reachFrom(w, []*core.FuncInfo{ec}, pExecAT), ec) {
		if f.Pkg.PkgPath != pExecAT || !lqReach.Hits(f.Obj) {
			continue
		}
		callsParam := false
		finfo := f.Pkg.TypesInfo
		ast.Inspect(f.Decl.Body, func(n ast.Node) bool {
			if c, ok := n.(*ast.CallExpr); ok {
				if id, ok := ast.Unparen(c.Fun).(*ast.Ident); ok {
					if v, ok := finfo.Uses[id].(*types.Var); ok && isParam(f, v) {
						if _, isSig := v.Type().Underlying().(*types.Signature); isSig {
							callsParam = true
						}
					}
				}
			}
			return true
		})
		if callsParam && (f != ec || inner == nil) {
			inner = f
		}
	}
	if inner == nil {
		r.Anchor("C03.sfu", nil, "function calling LockQuery")
		return
	}
	r.Fn(inner)
	info := inner.Pkg.TypesInfo
	sp := &flow.Spec{W: w, Depth: 0, Classify: func(pkg *packages.Package, call *ast.CallExpr, callee *types.Func) []flow.Tag {
		if isLockQuery(w, callee) {
			return []flow.Tag{"lockquery"}
		}
		if callee == nil {
			// the business callback (a parameter of function type)
			if id, ok := call.Fun.(*ast.Ident); ok {
				if v, ok := pkg.TypesInfo.Uses[id].(*types.Var); ok {
					if _, isSig := v.Type().Underlying().(*types.Signature); isSig {
						return []flow.Tag{"business"}
					}
				}
			}
		}
		return nil
	}}
	res := sp.Analyze(inner)
	for _, ex := range res.Exits {
		if ex.Class == flow.ExitErr || len(ex.Results) == 0 || isNilIdent(info, ex.Results[0]) {
			continue
		}
		r.Sites++
		key := core.ShortKey(inner.Obj) + " return of rows [" + ex.Class + "]"
		r.Check(ex.St.Has("ok:lockquery") && ex.St.Has("true:lockquery"), "C03.sfu", key, w.Pos(ex.Pos),
			"rows are returned only after LockQuery answered (true, nil)", "rows are returned on a path where the coordinator has not confirmed (true, nil) that they are lockable")
	}
	for _, cp := range res.Calls {
		if inSet("lockquery", cp.Tags...) {
			r.Sites++
			r.Check(cp.Before.Has("ok:business"), "C03.sfu", core.ShortKey(inner.Obj)+" -> LockQuery after the locking read", w.Pos(cp.Call.Pos()),
				"the coordinator is asked after the local locking read succeeded", "LockQuery is not preceded by the successful local locking read")
		}
	}
	// outer: error exits after the inner step ran pass a rollback; rows only with a nil step error
	oinfo := ec.Pkg.TypesInfo
	var stepErr types.Object
	// (the step may be driven by a retry helper of the executor whose own error is the step's: it returns an error
	// variable that is assigned from the step, and otherwise only where it is nil — a nil answer of the helper
	// means the last step answered nil)
	stepErrCarrier := func(h *core.FuncInfo) bool {
		if h == nil || h.Pkg != ec.Pkg || h == ec || h.Decl.Body == nil {
			return false
		}
		hinfo := h.Pkg.TypesInfo
		var ev types.Object
		okAll, fromStep := true, false
		ast.Inspect(h.Decl.Body, func(n ast.Node) bool {
			if _, isLit := n.(*ast.FuncLit); isLit {
				return false
			}
			if rs, isRet := n.(*ast.ReturnStmt); isRet && len(rs.Results) == 2 {
				o := core.ObjOf(hinfo, rs.Results[1])
				if o == nil || (ev != nil && o != ev) {
					okAll = false
				}
				ev = o
			}
			return true
		})
		if ev == nil || !okAll {
			return false
		}
		var stack []ast.Node
		ast.Inspect(h.Decl.Body, func(n ast.Node) bool {
			if n == nil {
				stack = stack[:len(stack)-1]
				return true
			}
			stack = append(stack, n)
			as, isAs := n.(*ast.AssignStmt)
			if !isAs {
				return true
			}
			for i, l := range as.Lhs {
				if core.ObjOf(hinfo, l) != ev {
					continue
				}
				if len(as.Rhs) == 1 && len(as.Lhs) == 2 && i == 1 {
					if c, isCall := as.Rhs[0].(*ast.CallExpr); isCall && core.Callee(hinfo, c) == inner.Obj {
						fromStep = true
						continue
					}
				}
				guarded := false
				for _, anc := range stack {
					if ifs, isIf := anc.(*ast.IfStmt); isIf {
						if be, isBin := ast.Unparen(ifs.Cond).(*ast.BinaryExpr); isBin && be.Op == token.EQL && core.ObjOf(hinfo, be.X) == ev && isNilIdent(hinfo, be.Y) && as.Pos() >= ifs.Body.Pos() && as.End() <= ifs.Body.End() {
							guarded = true
						}
					}
				}
				if !guarded {
					okAll = false
				}
			}
			return true
		})
		return okAll && fromStep
	}
	ast.Inspect(ec.Decl.Body, func(n ast.Node) bool {
		as, ok := n.(*ast.AssignStmt)
		if ok && len(as.Rhs) == 1 && len(as.Lhs) == 2 {
			if c, ok := as.Rhs[0].(*ast.CallExpr); ok && (core.Callee(oinfo, c) == inner.Obj || stepErrCarrier(w.Info(core.Callee(oinfo, c)))) {
				stepErr = core.ObjOf(oinfo, as.Lhs[1])
			}
		}
		return true
	})
	osp := &flow.Spec{W: w, Depth: 0, Classify: func(pkg *packages.Package, call *ast.CallExpr, callee *types.Func) []flow.Tag {
		switch {
		case callee == inner.Obj:
			return []flow.Tag{"step"}
		case isDriverTxRollback(callee):
			return []flow.Tag{"rollback"}
		case isDriverTxCommit(callee):
			return []flow.Tag{"commit"}
		case core.IsPkgFunc(callee, pTM, "IsGlobalTx"):
			return []flow.Tag{"isglobal"}
		}
		// rollback to savepoint: a call carrying a constant text starting with "rollback"
		found := false
		for _, a := range call.Args {
			ast.Inspect(a, func(n ast.Node) bool {
				if e, ok := n.(ast.Expr); ok {
					if v := core.ConstVal(pkg.TypesInfo, e); v != nil && v.Kind() == constant.String && strings.HasPrefix(strings.ToLower(strings.TrimSpace(constant.StringVal(v))), "rollback") {
						found = true
					}
				}
				return !found
			})
		}
		if found && callee != nil && callee.Pkg() != nil && callee.Pkg().Path() == pExecAT {
			return []flow.Tag{"rollback"}
		}
		return nil
	}}
	ores := osp.Analyze(ec)
	for _, ex := range ores.Exits {
		if !ex.St.Maybe("step") {
			if ex.ErrOrigin != nil && ex.ErrOrigin.Callee == nil {
				r.Sites++
				r.Check(ex.St.Has("false:isglobal"), "C03.sfu", core.ShortKey(ec.Obj)+" pass-through return", w.Pos(ex.Pos), "the statement bypasses the lock check only outside a global transaction", "the business statement is returned directly without the lock check although the context may carry a global transaction")
			}
			continue
		}
		r.Sites++
		role := exitRole(ex, func(t string) bool { return inSet(t, "rollback", "commit", "fail:commit", "ok:commit") })
		key := core.ShortKey(ec.Obj) + " " + role
		if ex.Class != flow.ExitOK && !ex.St.Has("commit") {
			r.Check(ex.St.Has("rollback"), "C03.sfu", key, w.Pos(ex.Pos), "error return after the locking read passes the savepoint/transaction rollback",
				"an error is returned after the locking read ran without rolling back to the savepoint or rolling back the transaction: local row locks stay held")
		} else if len(ex.Results) > 0 && !isNilIdent(oinfo, ex.Results[0]) {
			r.Check(stepErr != nil && ex.St.IsNil(stepErr), "C03.sfu", key+" rows", w.Pos(ex.Pos), "rows are returned only when the lock-checked step's error is nil", "rows are returned although the lock-checked step's error is not known nil")
		}
	}
}

// derivesFromName: e mentions the variable named name, or a variable that is assigned (anywhere in f) from an
// expression that does (bounded depth, flow-insensitive).
func derivesFromName(f *core.FuncInfo, e ast.Expr, name string, depth int) bool {
	info := f.Pkg.TypesInfo
	hit := false
	var vars []types.Object
	ast.Inspect(e, func(n ast.Node) bool {
		if id, ok := n.(*ast.Ident); ok {
			if id.Name == name {
				hit = true
			}
			if o, ok := info.Uses[id].(*types.Var); ok {
				vars = append(vars, o)
			}
		}
		return !hit
	})
	if hit || depth == 0 {
		return hit
	}
	for _, v := range vars {
		found := false
		ast.Inspect(f.Decl.Body, func(n ast.Node) bool {
			as, ok := n.(*ast.AssignStmt)
			if !ok || len(as.Lhs) != len(as.Rhs) {
				return true
			}
			for i, l := range as.Lhs {
				if core.ObjOf(info, l) == v && derivesFromName(f, as.Rhs[i], name, depth-1) {
					found = true
				}
			}
			return !found
		})
		if found {
			return true
		}
	}
	return false
}

// c03MetaKey: in the table-meta cache the name handed to the loader is the cache key itself.
func c03MetaKey(r *core.Run) {
	w := r.W
	t := w.NamedType("pkg/datasource/sql/datasource/base", "BaseTableMetaCache")
	f := methodInfo(w, t, "GetTableMeta")
	if r.Anchor("C03.format", f, "BaseTableMetaCache.GetTableMeta") == nil {
		return
	}
	r.Fn(f)
	info := f.Pkg.TypesInfo
	var keys, loads []string
	var loadPos token.Pos
	ast.Inspect(f.Decl.Body, func(n ast.Node) bool {
		switch x := n.(type) {
		case *ast.IndexExpr:
			if sel, ok := ast.Unparen(x.X).(*ast.SelectorExpr); ok && sel.Sel.Name == "cache" {
				keys = append(keys, origin(f, x.Index, 3))
			}
		case *ast.CallExpr:
			if g := core.Callee(info, x); g != nil && g.Name() == "LoadOne" && len(x.Args) >= 3 {
				loads = append(loads, origin(f, x.Args[2], 3))
				loadPos = x.Pos()
			}
		}
		return true
	})
	// (the miss branch may be a helper of the type that is handed the key: its parameters stand for the arguments)
	for _, cs := range w.Calls(f) {
		h := w.Info(cs.Static)
		if h == nil || h.Pkg != f.Pkg || h == f || h.Decl.Body == nil || core.RecvNamed(h.Obj) != t {
			continue
		}
		hinfo := h.Pkg.TypesInfo
		ps := paramObjs(h)
		subst := func(o string) string {
			for i, p := range ps {
				if i < len(cs.Call.Args) {
					o = strings.ReplaceAll(o, "param:"+p.Name(), origin(f, cs.Call.Args[i], 3))
				}
			}
			return o
		}
		ast.Inspect(h.Decl.Body, func(n ast.Node) bool {
			switch x := n.(type) {
			case *ast.IndexExpr:
				if sel, ok := ast.Unparen(x.X).(*ast.SelectorExpr); ok && sel.Sel.Name == "cache" {
					keys = append(keys, subst(origin(h, x.Index, 3)))
				}
			case *ast.CallExpr:
				if g := core.Callee(hinfo, x); g != nil && g.Name() == "LoadOne" && len(x.Args) >= 3 {
					loads = append(loads, subst(origin(h, x.Args[2], 3)))
					loadPos = x.Pos()
				}
			}
			return true
		})
	}
	// the other writers of the cache (the periodic refresh, which loads many tables at once and may get fewer back
	// than it asked for): an entry is stored under the name the loaded metadata itself carries
	for _, g := range w.SortedFuncs() {
		if core.RecvNamed(g.Obj) != t || w.IsTestFile(g.Decl.Pos()) || g.Decl.Body == nil {
			continue
		}
		loadsOne := false
		for _, cs := range w.Calls(g) {
			if cs.Static != nil && cs.Static.Name() == "LoadOne" {
				loadsOne = true
			}
		}
		if loadsOne {
			continue
		}
		ginfo := g.Pkg.TypesInfo
		ast.Inspect(g.Decl.Body, func(n ast.Node) bool {
			as, isAs := n.(*ast.AssignStmt)
			if !isAs || len(as.Lhs) != 1 || len(as.Rhs) != 1 {
				return true
			}
			ix, isIx := ast.Unparen(as.Lhs[0]).(*ast.IndexExpr)
			if !isIx {
				return true
			}
			sel, isSel := ast.Unparen(ix.X).(*ast.SelectorExpr)
			if !isSel || sel.Sel.Name != "cache" {
				return true
			}
			cl := findCompositeLit(g, as.Rhs[0])
			if cl == nil || litField(cl, "value") == nil {
				return true
			}
			val := origin(g, litField(cl, "value"), 4)
			ko := origin(g, ix.Index, 4)
			// structurally: key = [ToUpper|ToLower](V.TableName) with V the very expression stored as value
			named := func() bool {
				resolve := func(e ast.Expr) ast.Expr {
					for i := 0; i < 3; i++ {
						id, isID := ast.Unparen(e).(*ast.Ident)
						if !isID {
							break
						}
						v, isVar := ginfo.Uses[id].(*types.Var)
						if !isVar || v.IsField() {
							break
						}
						defs := localDefs(g, v)
						if len(defs) != 1 || defs[0].rng || defs[0].idx >= 0 {
							break
						}
						e = defs[0].rhs
					}
					return ast.Unparen(e)
				}
				k := resolve(ix.Index)
				if c, isCall := k.(*ast.CallExpr); isCall && len(c.Args) == 1 {
					if f := core.Callee(ginfo, c); f != nil && f.Pkg() != nil && f.Pkg().Path() == "strings" && (f.Name() == "ToUpper" || f.Name() == "ToLower") {
						k = resolve(c.Args[0])
					}
				}
				ks, isSel := k.(*ast.SelectorExpr)
				if !isSel || ks.Sel.Name != "TableName" {
					return false
				}
				return core.ExprString(resolve(ks.X)) == core.ExprString(resolve(litField(cl, "value")))
			}()
			r.Sites++
			r.Fn(g)
			r.Check(named, "C03.format", core.ShortKey(g.Obj)+" stores reloaded metadata under the name it carries", w.Pos(as.Pos()), "key = normalised TableName of the stored metadata",
				"the entry is stored under "+ko+", which is not the name of the metadata stored ("+val+".TableName): when the loader hands back fewer tables than it was asked for, a table's entry holds another table's columns — images, key roles and lock keys of later statements are built from the wrong table")
			_ = ginfo
			return true
		})
	}
	keys, loads = uniq(keys), uniq(loads)
	r.Sites++
	ok := len(keys) == 1 && len(loads) == 1 && keys[0] == loads[0] && (strings.Contains(keys[0], "strings.ToUpper(") || strings.Contains(keys[0], "strings.ToLower("))
	r.Check(ok, "C03.format", core.ShortKey(f.Obj)+" loads an entry under its own normalised cache key", w.Pos(loadPos), "key and loaded name: "+strings.Join(keys, ","),
		"the cache is keyed by ["+strings.Join(keys, ",")+"] but asks the loader for ["+strings.Join(loads, ",")+"]: TableMeta.TableName, the head of every lock key, then carries the spelling of whichever statement filled the entry, so two branches can register 't_user:1' and 'T_USER:1' for one row and the coordinator sees no conflict")
}

// c03ImageValueChain: how the AT executors turn a scanned value into the value a row image carries (the Value field
// of every ColumnImage literal in exec/at that is filled from a scan slice), with the scanned element abstracted to X.
func c03ImageValueChain(w *core.World) []string {
	var out []string
	for _, f := range w.SortedFuncs() {
		if f.Pkg.PkgPath != pExecAT || w.IsTestFile(f.Decl.Pos()) || f.Decl.Body == nil {
			continue
		}
		info := f.Pkg.TypesInfo
		ast.Inspect(f.Decl.Body, func(n ast.Node) bool {
			// (the value may be filled into a prepared column image: columns[i].Value = ..)
			if as, isAs := n.(*ast.AssignStmt); isAs && len(as.Lhs) == len(as.Rhs) {
				for i, l := range as.Lhs {
					sel, isSel := ast.Unparen(l).(*ast.SelectorExpr)
					if !isSel || sel.Sel.Name != "Value" {
						continue
					}
					if t := info.TypeOf(sel.X); t == nil || !strings.HasSuffix(strings.TrimPrefix(t.String(), "*"), "types.ColumnImage") {
						continue
					}
					if c := abstractChain(origin(f, as.Rhs[i], 6)); strings.Contains(c, "(") {
						out = append(out, c)
					}
				}
				return true
			}
			cl, ok := n.(*ast.CompositeLit)
			if !ok {
				return true
			}
			if t := info.TypeOf(cl); t == nil || !strings.HasSuffix(t.String(), "types.ColumnImage") {
				return true
			}
			if v := litField(cl, "Value"); v != nil {
				if c := abstractChain(origin(f, v, 6)); strings.Contains(c, "(") {
					out = append(out, c)
				}
			}
			return true
		})
	}
	return uniq(out)
}

// abstractChain: the functions a value passes through, outermost first, up to where it was scanned
// (call:f(call:g(range(call:GetScanSlice(..)))) -> "f <- g").
func abstractChain(o string) string {
	var names []string
	rest := o
	for {
		i := strings.Index(rest, "call:")
		if i < 0 {
			break
		}
		rest = rest[i+len("call:"):]
		// the name runs to the '(' of the argument list; a '(' right after a '.' opens the receiver type "(T)"
		j := 0
		for j < len(rest) {
			if rest[j] == '(' {
				if j > 0 && rest[j-1] == '.' {
					if k := strings.IndexByte(rest[j:], ')'); k >= 0 {
						j += k + 1
						continue
					}
				}
				break
			}
			j++
		}
		name := rest[:j]
		if strings.Contains(name, "GetScanSlice") || strings.HasSuffix(name, ".Scan") {
			break
		}
		names = append(names, name)
		rest = rest[j:]
	}
	if len(names) == 0 {
		return o
	}
	return strings.Join(names, " <- ") + "(X)"
}

// c03KeyPartText: the text of a key part is fmt's %v of the column value as the row images carry it — taken from
// an image (ColumnImage.Value), or produced from the scanned value by the very chain of functions that fills the
// images. A DML statement and a locking read then render the key of one row identically whatever the column type.
// keyWrite is one write into the key text: a constant, or the expression Arg written by function Fn (the builder or
// a helper it writes through, analysed in the builder's context).
type keyWrite struct {
	Call  *ast.CallExpr
	Fn    *core.FuncInfo
	Arg   ast.Expr // the written text / value expression (for Fprintf: the value; Format holds the verb)
	Const *string
	// Format: non-nil when the write formats Arg (fmt.Fprintf(b, format, arg))
	Format ast.Expr
}

// keyWrites lists, in the order the recording pass meets them, the writes into an in-memory text buffer done by f
// and by the helpers of its package it calls (a writer object with methods is analysed in f's context).
func keyWrites(w *core.World, f *core.FuncInfo) []keyWrite {
	isBuf := func(t types.Type) bool {
		if t == nil {
			return false
		}
		if p, ok := t.(*types.Pointer); ok {
			t = p.Elem()
		}
		n, ok := t.(*types.Named)
		if !ok || n.Obj().Pkg() == nil {
			return false
		}
		q := n.Obj().Pkg().Path() + "." + n.Obj().Name()
		return q == "strings.Builder" || q == "bytes.Buffer"
	}
	res := (&flow.Spec{W: w, Depth: 0, Inline: 3, Classify: func(pkg *packages.Package, call *ast.CallExpr, callee *types.Func) []flow.Tag {
		if callee == nil {
			return nil
		}
		if sig, ok := callee.Type().(*types.Signature); ok && sig.Recv() != nil && isBuf(sig.Recv().Type()) && strings.HasPrefix(callee.Name(), "Write") && len(call.Args) == 1 {
			return []flow.Tag{"write"}
		}
		if callee.Pkg() != nil && callee.Pkg().Path() == "fmt" && strings.HasPrefix(callee.Name(), "Fprint") && len(call.Args) >= 2 && isBuf(pkg.TypesInfo.TypeOf(call.Args[0])) {
			return []flow.Tag{"fwrite"}
		}
		return nil
	}}).Analyze(f)
	var out []keyWrite
	seen := map[*ast.CallExpr]bool{}
	for _, cp := range res.Calls {
		if seen[cp.Call] {
			continue
		}
		seen[cp.Call] = true
		fn := cp.Fn
		if fn == nil {
			fn = f
		}
		info := fn.Pkg.TypesInfo
		kw := keyWrite{Call: cp.Call, Fn: fn}
		switch {
		case inSet("write", cp.Tags...):
			kw.Arg = cp.Call.Args[0]
		case inSet("fwrite", cp.Tags...) && len(cp.Call.Args) == 3 && cp.Callee.Name() == "Fprintf":
			kw.Format, kw.Arg = cp.Call.Args[1], cp.Call.Args[2]
		case inSet("fwrite", cp.Tags...) && len(cp.Call.Args) == 2 && cp.Callee.Name() == "Fprint":
			kw.Arg = cp.Call.Args[1]
			kw.Format = kw.Arg // marks "formatted with the default verb"
		default:
			kw.Arg = cp.Call.Args[len(cp.Call.Args)-1]
		}
		if kw.Format == nil || kw.Format == kw.Arg {
			if v := core.ConstVal(info, kw.Arg); v != nil {
				switch v.Kind() {
				case constant.String:
					t := constant.StringVal(v)
					kw.Const = &t
				case constant.Int:
					// WriteByte(':') / WriteRune(',')
					if i, ok := constant.Int64Val(v); ok && i > 0 && i < 0x110000 {
						t := string(rune(i))
						kw.Const = &t
					}
				}
			}
		}
		out = append(out, kw)
	}
	return out
}

func c03KeyPartText(r *core.Run, f *core.FuncInfo, key string, writes []keyWrite) {
	w := r.W
	chains := c03ImageValueChain(w)
	bad := ""
	nParts := 0
	for _, kw := range writes {
		if kw.Const != nil {
			continue
		}
		c := kw.Call
		info := kw.Fn.Pkg.TypesInfo
		var val ast.Expr // the value rendered by this write
		switch {
		case kw.Format != nil && kw.Format != kw.Arg:
			if v := core.ConstVal(info, kw.Format); v == nil || v.Kind() != constant.String || constant.StringVal(v) != "%v" {
				bad = w.Pos(c.Pos()) + ": a key part is formatted with " + core.ExprString(kw.Format) + ", not %v"
				continue
			}
			val = kw.Arg
		case kw.Format != nil:
			val = kw.Arg
		default:
			if strings.HasSuffix(originVia(f, kw.Fn, kw.Arg, 4), ".TableName") {
				continue
			}
			inner, isCall := ast.Unparen(kw.Arg).(*ast.CallExpr)
			if !isCall {
				bad = w.Pos(c.Pos()) + ": a key part is written as '" + core.ExprString(kw.Arg) + "', not as fmt %v of the column value"
				continue
			}
			g := core.Callee(info, inner)
			switch {
			case g != nil && g.Pkg() != nil && g.Pkg().Path() == "fmt" && g.Name() == "Sprintf" && len(inner.Args) == 2:
				if v := core.ConstVal(info, inner.Args[0]); v == nil || v.Kind() != constant.String || constant.StringVal(v) != "%v" {
					bad = w.Pos(c.Pos()) + ": a key part is formatted with " + core.ExprString(inner.Args[0]) + ", not %v"
					continue
				}
				val = inner.Args[1]
			case g != nil && g.Pkg() != nil && g.Pkg().Path() == "fmt" && g.Name() == "Sprint" && len(inner.Args) == 1:
				val = inner.Args[0]
			default:
				bad = w.Pos(c.Pos()) + ": a key part is rendered by " + core.ExprString(inner.Fun) + ", not by fmt %v of the column value"
				continue
			}
		}
		nParts++
		o := originVia(f, kw.Fn, val, 6)
		if strings.HasSuffix(o, ".Value") && !strings.Contains(o, "reflect.") {
			continue // the value of a column image
		}
		a := abstractChain(o)
		matched := false
		for _, ch := range chains {
			if a == ch {
				matched = true
			}
		}
		if !matched && bad == "" {
			bad = w.Pos(c.Pos()) + ": the key part is the text of " + o + ", which is neither the value of a row image nor the scanned value passed through the chain that fills the images (" + strings.Join(chains, " | ") + ")"
		}
	}
	r.Sites++
	if nParts == 0 && bad == "" {
		bad = "no write of a key part found"
	}
	r.Check(bad == "", "C03.format", key+" : key parts are the image values as fmt %v renders them", w.Pos(f.Decl.Pos()), "same text for DML and locking reads",
		bad+": a locking read and a DML statement then spell the key of one row differently for some column types, the coordinator (which matches text) answers 'lockable' for a row another transaction holds")
}
