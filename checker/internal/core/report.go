package core

import (
	"encoding/json"
	"fmt"
	"os"
	"path/filepath"
	"regexp"
	"sort"
	"strings"
	"time"
)

// Verdicts.
const (
	Discharged = "discharged"
	Violated   = "violated"
	Undecided  = "undecided"
)

// Obligation is one rule instance, keyed by rule id + construct (never by line).
type Obligation struct {
	Rule    string      `json:"rule"`
	Key     string      `json:"construct"`
	Verdict string      `json:"verdict"`
	Pos     string      `json:"pos,omitempty"`
	Msg     string      `json:"msg,omitempty"`
	Detail  interface{} `json:"detail,omitempty"`
	Known   bool        `json:"known_finding,omitempty"`
}

// Finding is an entry of known_findings.json.
type Finding struct {
	Property string `json:"property"`
	Rule     string `json:"rule"`
	Key      string `json:"construct"`
	Status   string `json:"status"` // "known" or "fixed"
	Commit   string `json:"commit,omitempty"`
	What     string `json:"what"`
}

// Run collects the obligations of one property check.
type Run struct {
	Property string
	Tier     string
	VerifDir string
	W        *World
	Start    time.Time
	Obls     []*Obligation
	seen     map[string]*Obligation
	Funcs    map[string]bool // functions analysed
	Sites    int             // call sites / table entries inspected
	Explain  string          // what is decided / not decided
	Assume   []string
	Trusted  []string
	floors   []floor
	Extra    map[string]interface{}
}

type floor struct {
	rule string
	min  int
}

func NewRun(prop, tier, verifDir string, w *World) *Run {
	return &Run{Property: prop, Tier: tier, VerifDir: verifDir, W: w, Start: time.Now(), seen: map[string]*Obligation{}, Funcs: map[string]bool{}, Extra: map[string]interface{}{}}
}

func (r *Run) add(rule, key, verdict, pos, msg string, detail interface{}) *Obligation {
	id := rule + "|" + key
	if o, ok := r.seen[id]; ok {
		// keep the worst verdict for a repeated construct
		if rank(verdict) > rank(o.Verdict) {
			o.Verdict, o.Pos, o.Msg, o.Detail = verdict, pos, msg, detail
		}
		return o
	}
	o := &Obligation{Rule: rule, Key: key, Verdict: verdict, Pos: pos, Msg: msg, Detail: detail}
	r.seen[id] = o
	r.Obls = append(r.Obls, o)
	return o
}

func rank(v string) int {
	switch v {
	case Violated:
		return 2
	case Undecided:
		return 1
	}
	return 0
}

func (r *Run) OK(rule, key, pos, msg string) { r.add(rule, key, Discharged, pos, msg, nil) }
func (r *Run) Bad(rule, key, pos, msg string, detail ...interface{}) {
	var d interface{}
	if len(detail) == 1 {
		d = detail[0]
	} else if len(detail) > 1 {
		d = detail
	}
	r.add(rule, key, Violated, pos, msg, d)
}
func (r *Run) Undecided(rule, key, pos, msg string) { r.add(rule, key, Undecided, pos, msg, nil) }

// Check records OK when cond holds, else Bad.
func (r *Run) Check(cond bool, rule, key, pos, okMsg, badMsg string) bool {
	if cond {
		r.OK(rule, key, pos, okMsg)
	} else {
		r.Bad(rule, key, pos, badMsg)
	}
	return cond
}

// Floor demands at least min obligations for rule (a rule that matches nothing must not pass).
func (r *Run) Floor(rule string, min int) { r.floors = append(r.floors, floor{rule, min}) }

// Fn notes a function as analysed.
func (r *Run) Fn(f *FuncInfo) {
	if f != nil {
		r.Funcs[ShortKey(f.Obj)] = true
	}
}

// Anchor returns f or records an unresolved-anchor violation.
func (r *Run) Anchor(rule string, f *FuncInfo, desc string) *FuncInfo {
	if f == nil {
		r.add(rule, "ANCHOR-UNRESOLVED "+desc, Undecided, "", "anchor not found in the current tree: "+desc, nil)
		return nil
	}
	r.Fn(f)
	return f
}

// LoadFindings reads known_findings.json.
func LoadFindings(verifDir string) ([]Finding, error) {
	b, err := os.ReadFile(filepath.Join(verifDir, "known_findings.json"))
	if err != nil {
		if os.IsNotExist(err) {
			return nil, nil
		}
		return nil, err
	}
	var doc struct {
		Findings []Finding `json:"findings"`
	}
	if err := json.Unmarshal(b, &doc); err != nil {
		return nil, err
	}
	return doc.Findings, nil
}

var unsafeName = regexp.MustCompile(`[^A-Za-z0-9_.-]+`)

// Finish applies floors and known findings, writes evidence and replay files, prints the
// KNOWN-FINDING / VIOLATION lines and returns the process exit code.
func (r *Run) Finish() int {
	// floors
	cnt := map[string]int{}
	for _, o := range r.Obls {
		cnt[o.Rule]++
	}
	for _, f := range r.floors {
		if cnt[f.rule] < f.min {
			r.add(f.rule, fmt.Sprintf("INSTANCE-FLOOR %s", f.rule), Undecided, "",
				fmt.Sprintf("rule matched %d instances, fewer than the %d confirmed by hand: the construct it ranges over was lost", cnt[f.rule], f.min), nil)
		}
	}
	findings, ferr := LoadFindings(r.VerifDir)
	if ferr != nil {
		r.add(r.Property+".findings", "known_findings.json", Undecided, "", "cannot read known findings: "+ferr.Error(), nil)
	}
	known := map[string]Finding{}
	for _, f := range findings {
		if f.Status == "known" && f.Property == r.Property {
			known[f.Rule+"|"+f.Key] = f
		}
	}
	sort.SliceStable(r.Obls, func(i, j int) bool {
		if r.Obls[i].Rule != r.Obls[j].Rule {
			return r.Obls[i].Rule < r.Obls[j].Rule
		}
		return r.Obls[i].Key < r.Obls[j].Key
	})
	outDir := filepath.Join(r.VerifDir, "out", r.Property)
	os.RemoveAll(outDir)
	var nViol, nKnown, nDis int
	perRule := map[string]map[string]int{}
	var lines []string
	for _, o := range r.Obls {
		if perRule[o.Rule] == nil {
			perRule[o.Rule] = map[string]int{}
		}
		switch o.Verdict {
		case Discharged:
			nDis++
			perRule[o.Rule]["discharged"]++
			continue
		}
		if f, ok := known[o.Rule+"|"+o.Key]; ok && o.Verdict == Violated {
			o.Known = true
			nKnown++
			perRule[o.Rule]["known"]++
			lines = append(lines, fmt.Sprintf("KNOWN-FINDING: property=%s %s [%s] %s (%s)", r.Property, o.Rule, o.Key, f.What, o.Pos))
			continue
		}
		nViol++
		perRule[o.Rule][o.Verdict]++
		name := unsafeName.ReplaceAllString(o.Rule+"__"+o.Key, "_")
		if len(name) > 150 {
			name = name[:150]
		}
		path := filepath.Join(outDir, fmt.Sprintf("%03d_%s.json", nViol, name))
		_ = WriteJSON(path, map[string]interface{}{"property": r.Property, "obligation": o, "tier": r.Tier,
			"how_to_replay": "./check " + r.Property + " quick   # re-derives every obligation from /repo's current tree; this one is identified by rule+construct"})
		tag := "VIOLATED"
		if o.Verdict == Undecided {
			tag = "UNDECIDED"
		}
		lines = append(lines, fmt.Sprintf("%s %s [%s] %s: %s", tag, o.Rule, o.Key, o.Pos, o.Msg))
		lines = append(lines, fmt.Sprintf("VIOLATION property=%s replay=%s", r.Property, path))
	}
	// evidence
	var samples []interface{}
	perRuleSample := map[string]int{}
	for _, o := range r.Obls {
		if perRuleSample[o.Rule] < 2 || o.Verdict != Discharged {
			perRuleSample[o.Rule]++
			samples = append(samples, o)
		}
		if len(samples) >= 60 {
			break
		}
	}
	var fns []string
	for f := range r.Funcs {
		fns = append(fns, f)
	}
	sort.Strings(fns)
	tier := r.Tier
	if tier != "thorough" {
		tier = "quick"
	}
	cov := map[string]interface{}{
		"explanation":         r.Explain,
		"obligations":         len(r.Obls),
		"discharged":          nDis,
		"known_findings":      nKnown,
		"violated":            nViol,
		"evaluations":         len(r.Obls),
		"distinct_nontrivial": len(r.Obls),
		"rule":                "one obligation per rule instance (rule id + construct: package, receiver, function, callee/field/exit role); all are distinct by key; a rule instance is non-trivial because it names a construct found in the current source",
		"per_rule":            perRule,
		"samples":             samples,
		"packages_analysed":   len(r.W.Pkgs),
		"functions_in_repo":   len(r.W.Funcs),
		"functions_analysed":  fns,
		"sites_inspected":     r.Sites,
		"checker_cmd":         "./check " + r.Property + " " + tier,
		"trusted_base":        r.Trusted,
		"exhaustive":          true,
	}
	for k, v := range r.Extra {
		cov[k] = v
	}
	if r.Assume == nil {
		r.Assume = []string{"interface calls resolve to the repository's own implementations (CHA); third-party implementations are outside the claim"}
	}
	if r.Trusted == nil {
		r.Trusted = []string{"go/types, go/cfg"}
	}
	cov["trusted_base"] = r.Trusted
	ev := map[string]interface{}{
		"property_id": r.Property,
		"tier":        tier,
		"seed":        0,
		"level":       "other",
		"coverage":    cov,
		"assumptions": r.Assume,
		"wall_s":      time.Since(r.Start).Seconds(),
		"violations":  nViol,
	}
	if err := WriteJSON(filepath.Join(r.VerifDir, "evidence", r.Property+".json"), ev); err != nil {
		fmt.Println("cannot write evidence:", err)
		return 2
	}
	fmt.Printf("== %s tier=%s packages=%d functions=%d analysed_functions=%d obligations=%d discharged=%d known=%d violated=%d\n",
		r.Property, tier, len(r.W.Pkgs), len(r.W.Funcs), len(fns), len(r.Obls), nDis, nKnown, nViol)
	var rules []string
	for k := range perRule {
		rules = append(rules, k)
	}
	sort.Strings(rules)
	for _, k := range rules {
		var parts []string
		for _, v := range []string{"discharged", "known", Violated, Undecided} {
			if perRule[k][v] > 0 {
				parts = append(parts, fmt.Sprintf("%s=%d", v, perRule[k][v]))
			}
		}
		fmt.Printf("   %-18s %s\n", k, strings.Join(parts, " "))
	}
	for _, l := range lines {
		fmt.Println(l)
	}
	if nViol > 0 {
		return 1
	}
	return 0
}
