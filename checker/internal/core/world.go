// Package core loads /repo's current working tree into a type-checked program
// and offers semantic lookups (functions, interface implementations, resolved
// callees, call graph, reachability). Nothing here executes repository code.
package core

import (
	"encoding/json"
	"fmt"
	"go/ast"
	"go/constant"
	"go/token"
	"go/types"
	"os"
	"path/filepath"
	"sort"
	"strings"

	"golang.org/x/tools/go/cfg"
	"golang.org/x/tools/go/packages"
	"golang.org/x/tools/go/types/typeutil"
)

const Module = "seata.apache.org/seata-go"

// FuncInfo is one function or method declared with a body in the repository.
type FuncInfo struct {
	Obj  *types.Func
	Decl *ast.FuncDecl
	Pkg  *packages.Package
	cfg  *cfg.CFG
}

func (f *FuncInfo) String() string { return FuncKey(f.Obj) }

// World is the loaded program.
type World struct {
	Root        string
	Fset        *token.FileSet
	Pkgs        []*packages.Package
	ByPath      map[string]*packages.Package
	Funcs       map[*types.Func]*FuncInfo
	pkgVarLit   map[*types.Var]*pkgVarLitEntry
	refs        map[*FuncInfo][]*types.Func
	valueFields map[*types.Var]map[*types.Func]int
	fieldCalls  map[*types.Var][]ValueCall
	byKey       map[string]*FuncInfo
	Named       []*types.Named // every named (non-alias) type declared in the repo
	Tests       bool

	calls   map[*FuncInfo][]*CallSite
	callers map[*types.Func][]*CallSite
	implsC  map[string][]*types.Func
	lits    map[*ast.FuncLit]*FuncInfo
}

// LoadOptions controls the load.
type LoadOptions struct {
	Root    string            // repository root (default /repo)
	Overlay map[string][]byte // absolute file name -> content
	Tests   bool
	Env     []string
}

// Load type-checks every package of the repository module.
func Load(opt LoadOptions) (*World, error) {
	if opt.Root == "" {
		opt.Root = "/repo"
	}
	env := append(os.Environ(), "GOFLAGS=-mod=mod", "GOPROXY=off", "GOSUMDB=off", "GOTOOLCHAIN=local", "GOWORK=off")
	env = append(env, opt.Env...)
	cfgp := &packages.Config{
		Mode: packages.NeedName | packages.NeedFiles | packages.NeedCompiledGoFiles | packages.NeedImports |
			packages.NeedDeps | packages.NeedTypes | packages.NeedSyntax | packages.NeedTypesInfo | packages.NeedTypesSizes | packages.NeedModule,
		Dir:     opt.Root,
		Env:     env,
		Overlay: opt.Overlay,
		Tests:   opt.Tests,
	}
	// NeedDeps + NeedSyntax would type-check dependencies from source; restrict to LoadSyntax semantics.
	cfgp.Mode = packages.LoadSyntax | packages.NeedModule
	pkgs, err := packages.Load(cfgp, "./...")
	if err != nil {
		return nil, fmt.Errorf("packages.Load: %w", err)
	}
	w := &World{Root: opt.Root, ByPath: map[string]*packages.Package{}, Funcs: map[*types.Func]*FuncInfo{}, byKey: map[string]*FuncInfo{}, Tests: opt.Tests,
		implsC: map[string][]*types.Func{}, lits: map[*ast.FuncLit]*FuncInfo{}}
	var errs []string
	for _, p := range pkgs {
		if !strings.HasPrefix(p.PkgPath, Module) {
			continue
		}
		if strings.HasSuffix(p.ID, ".test") { // synthesized test main
			continue
		}
		for _, e := range p.Errors {
			errs = append(errs, fmt.Sprintf("%s: %s", p.PkgPath, e.Msg))
		}
		if p.Types == nil || p.TypesInfo == nil {
			errs = append(errs, p.PkgPath+": no type information")
			continue
		}
		if w.Fset == nil {
			w.Fset = p.Fset
		}
		// With Tests:true a package appears twice (plain and with tests); prefer the
		// variant with tests ("pkg [pkg.test]") for the same PkgPath.
		if old, ok := w.ByPath[p.PkgPath]; ok {
			if len(p.Syntax) <= len(old.Syntax) {
				continue
			}
		}
		w.ByPath[p.PkgPath] = p
	}
	if len(errs) > 0 {
		sort.Strings(errs)
		if len(errs) > 8 {
			errs = errs[:8]
		}
		return nil, fmt.Errorf("type errors in repository packages: %s", strings.Join(errs, "; "))
	}
	for _, p := range w.ByPath {
		w.Pkgs = append(w.Pkgs, p)
	}
	sort.Slice(w.Pkgs, func(i, j int) bool { return w.Pkgs[i].PkgPath < w.Pkgs[j].PkgPath })
	if len(w.Pkgs) == 0 {
		return nil, fmt.Errorf("no repository packages loaded from %s", opt.Root)
	}
	for _, p := range w.Pkgs {
		for _, f := range p.Syntax {
			for _, d := range f.Decls {
				fd, ok := d.(*ast.FuncDecl)
				if !ok || fd.Body == nil {
					continue
				}
				obj, _ := p.TypesInfo.Defs[fd.Name].(*types.Func)
				if obj == nil {
					continue
				}
				fi := &FuncInfo{Obj: obj, Decl: fd, Pkg: p}
				w.Funcs[obj] = fi
				w.byKey[FuncKey(obj)] = fi
				ast.Inspect(fd.Body, func(n ast.Node) bool {
					if fl, ok := n.(*ast.FuncLit); ok {
						w.lits[fl] = fi
					}
					return true
				})
			}
		}
		sc := p.Types.Scope()
		for _, name := range sc.Names() {
			if tn, ok := sc.Lookup(name).(*types.TypeName); ok && !tn.IsAlias() {
				if nt, ok := tn.Type().(*types.Named); ok {
					w.Named = append(w.Named, nt)
				}
			}
		}
	}
	return w, nil
}

// IsTestFile reports whether the position lies in a _test.go file.
func (w *World) IsTestFile(pos token.Pos) bool {
	return strings.HasSuffix(w.Fset.Position(pos).Filename, "_test.go")
}

// FuncKey is a stable textual identity: pkgpath.(Recv).Name
func FuncKey(f *types.Func) string {
	if f == nil {
		return "<nil>"
	}
	sig, _ := f.Type().(*types.Signature)
	pkg := ""
	if f.Pkg() != nil {
		pkg = f.Pkg().Path()
	}
	if sig != nil && sig.Recv() != nil {
		t := sig.Recv().Type()
		if p, ok := t.(*types.Pointer); ok {
			t = p.Elem()
		}
		name := t.String()
		if n, ok := t.(*types.Named); ok {
			name = n.Obj().Name()
		}
		return pkg + ".(" + name + ")." + f.Name()
	}
	return pkg + "." + f.Name()
}

// ShortKey drops the module prefix.
func ShortKey(f *types.Func) string {
	return strings.TrimPrefix(FuncKey(f), Module+"/")
}

// Func looks a function up by package path suffix (relative to the module), receiver type name ("" for none) and name.
func (w *World) Func(pkgRel, recv, name string) *FuncInfo {
	k := Module + "/" + pkgRel + "."
	if pkgRel == "" {
		k = Module + "."
	}
	if recv != "" {
		k += "(" + recv + ")."
	}
	return w.byKey[k+name]
}

// Pkg returns the package by module-relative path.
func (w *World) Pkg(pkgRel string) *packages.Package {
	return w.ByPath[Module+"/"+pkgRel]
}

// Lookup returns a package-level object.
func (w *World) Lookup(pkgRel, name string) types.Object {
	p := w.Pkg(pkgRel)
	if p == nil {
		return nil
	}
	return p.Types.Scope().Lookup(name)
}

// NamedType returns a named type of the repository.
func (w *World) NamedType(pkgRel, name string) *types.Named {
	o := w.Lookup(pkgRel, name)
	if o == nil {
		return nil
	}
	n, _ := o.Type().(*types.Named)
	return n
}

// Interface returns the underlying interface of a named repo type.
func (w *World) Interface(pkgRel, name string) *types.Interface {
	n := w.NamedType(pkgRel, name)
	if n == nil {
		return nil
	}
	i, _ := n.Underlying().(*types.Interface)
	return i
}

// Implementers lists the repo's named non-interface types T such that T or *T implements iface.
func (w *World) Implementers(iface *types.Interface) []*types.Named {
	var out []*types.Named
	for _, n := range w.Named {
		if _, isI := n.Underlying().(*types.Interface); isI {
			continue
		}
		if n.TypeParams().Len() > 0 {
			continue
		}
		if types.Implements(n, iface) || types.Implements(types.NewPointer(n), iface) {
			out = append(out, n)
		}
	}
	sort.Slice(out, func(i, j int) bool { return out[i].String() < out[j].String() })
	return out
}

// MethodOf returns the concrete method (possibly promoted from an embedded type) named name on *T.
func (w *World) MethodOf(n *types.Named, name string) *types.Func {
	ms := types.NewMethodSet(types.NewPointer(n))
	for i := 0; i < ms.Len(); i++ {
		if ms.At(i).Obj().Name() == name {
			f, _ := ms.At(i).Obj().(*types.Func)
			return f
		}
	}
	return nil
}

// Info returns the FuncInfo for a function object (nil when not declared in the repo).
func (w *World) Info(f *types.Func) *FuncInfo {
	if f == nil {
		return nil
	}
	if fi, ok := w.Funcs[f]; ok {
		return fi
	}
	if o := f.Origin(); o != f {
		return w.Funcs[o]
	}
	return nil
}

// CFG of a function body (cached).
func (w *World) CFG(f *FuncInfo) *cfg.CFG {
	if f.cfg == nil {
		f.cfg = cfg.New(f.Decl.Body, func(c *ast.CallExpr) bool { return w.mayReturn(f.Pkg, c) })
	}
	return f.cfg
}

// LitCFG builds the CFG of a function literal.
func (w *World) LitCFG(pkg *packages.Package, lit *ast.FuncLit) *cfg.CFG {
	return cfg.New(lit.Body, func(c *ast.CallExpr) bool { return w.mayReturn(pkg, c) })
}

func (w *World) mayReturn(pkg *packages.Package, c *ast.CallExpr) bool {
	if id, ok := c.Fun.(*ast.Ident); ok && id.Name == "panic" {
		if _, isB := pkg.TypesInfo.Uses[id].(*types.Builtin); isB {
			return false
		}
	}
	if f := typeutil.StaticCallee(pkg.TypesInfo, c); f != nil && f.Pkg() != nil {
		switch f.Pkg().Path() + "." + f.Name() {
		case "os.Exit", "log.Fatal", "log.Fatalf", "log.Panic", "log.Panicf", "runtime.Goexit":
			return false
		}
	}
	return true
}

// CallSite is one call expression with its resolved callees.
type CallSite struct {
	Caller  *FuncInfo
	Call    *ast.CallExpr
	Static  *types.Func   // statically resolved callee (function, concrete method, or interface method)
	Callees []*types.Func // concrete repo/non-repo targets: Static itself, or repo implementations of the interface method
	Iface   bool
	InDefer bool
	InGo    bool
	InLit   *ast.FuncLit
	Table   bool // the callee is one of the function values of a dispatch table the called variable was read from
}

// Callee resolves the function object called by call (nil for builtins, conversions and dynamic function values).
func Callee(info *types.Info, call *ast.CallExpr) *types.Func {
	f, _ := typeutil.Callee(info, call).(*types.Func)
	return f
}

// IsIfaceMethod reports whether f is declared on an interface.
func IsIfaceMethod(f *types.Func) bool {
	sig, ok := f.Type().(*types.Signature)
	if !ok || sig.Recv() == nil {
		return false
	}
	return types.IsInterface(sig.Recv().Type())
}

// Impls returns the repo methods that may be the dynamic target of interface method m (CHA over repo types).
func (w *World) Impls(m *types.Func) []*types.Func {
	key := FuncKey(m) + "#" + m.Type().String()
	if r, ok := w.implsC[key]; ok {
		return r
	}
	var out []*types.Func
	sig := m.Type().(*types.Signature)
	it, _ := sig.Recv().Type().Underlying().(*types.Interface)
	if it != nil {
		for _, n := range w.Implementers(it) {
			if f := w.MethodOf(n, m.Name()); f != nil {
				out = append(out, f)
			}
		}
	}
	w.implsC[key] = out
	return out
}

// Resolve returns the possible concrete callees of a call.
func (w *World) Resolve(info *types.Info, call *ast.CallExpr) (static *types.Func, callees []*types.Func, iface bool) {
	f := Callee(info, call)
	if f == nil {
		return nil, nil, false
	}
	if IsIfaceMethod(f) {
		return f, w.Impls(f), true
	}
	return f, []*types.Func{f}, false
}

// Calls lists the call sites in the body of f (function literals included, flagged).
func (w *World) Calls(f *FuncInfo) []*CallSite {
	if w.calls == nil {
		w.calls = map[*FuncInfo][]*CallSite{}
	}
	if cs, ok := w.calls[f]; ok {
		return cs
	}
	var out []*CallSite
	var visit func(n ast.Node, inDefer, inGo bool, lit *ast.FuncLit)
	visit = func(n ast.Node, inDefer, inGo bool, lit *ast.FuncLit) {
		ast.Inspect(n, func(x ast.Node) bool {
			switch x := x.(type) {
			case *ast.DeferStmt:
				visit(x.Call, true, inGo, lit)
				return false
			case *ast.GoStmt:
				visit(x.Call, inDefer, true, lit)
				return false
			case *ast.FuncLit:
				if x != n {
					visit(x.Body, inDefer, inGo, x)
					return false
				}
			case *ast.CallExpr:
				st, cal, ifc := w.Resolve(f.Pkg.TypesInfo, x)
				if st != nil {
					out = append(out, &CallSite{Caller: f, Call: x, Static: st, Callees: cal, Iface: ifc, InDefer: inDefer, InGo: inGo, InLit: lit})
				} else {
					// a function value taken out of a dispatch table (builder := table[key]; builder(..)): one call
					// site per function the table holds
					for _, t := range w.TableTargets(f, x) {
						out = append(out, &CallSite{Caller: f, Call: x, Static: t, Callees: []*types.Func{t}, Table: true, InDefer: inDefer, InGo: inGo, InLit: lit})
					}
				}
			}
			return true
		})
	}
	visit(f.Decl.Body, false, false, nil)
	w.calls[f] = out
	return out
}

// TableTargets: call is `v(..)` (or `table[k](..)`) where v was read from a map / slice / array whose composite
// literal (of a package-level variable that is never reassigned, or of a local) holds functions by name.
func (w *World) TableTargets(f *FuncInfo, call *ast.CallExpr) []*types.Func {
	info := f.Pkg.TypesInfo
	fun := ast.Unparen(call.Fun)
	var ix *ast.IndexExpr
	var extra []*types.Func
	switch x := fun.(type) {
	case *ast.IndexExpr:
		ix = x
	case *ast.Ident:
		v, ok := info.Uses[x].(*types.Var)
		if !ok || v.IsField() || v.Pkg() == nil || v.Parent() == v.Pkg().Scope() {
			return nil
		}
		// one definition from the table in f: v := T[k]  /  v, ok := T[k]  (also as the init of an if); any other
		// definition names a declared function (the default when the key is missing: v = fallback)
		n := 0
		ast.Inspect(f.Decl.Body, func(m ast.Node) bool {
			as, ok := m.(*ast.AssignStmt)
			if !ok {
				return true
			}
			for i, l := range as.Lhs {
				if id, ok := l.(*ast.Ident); ok && (info.Defs[id] == types.Object(v) || info.Uses[id] == types.Object(v)) {
					if len(as.Rhs) == len(as.Lhs) {
						var fn *types.Func
						switch y := ast.Unparen(as.Rhs[i]).(type) {
						case *ast.Ident:
							fn, _ = info.Uses[y].(*types.Func)
						case *ast.SelectorExpr:
							fn, _ = info.Uses[y.Sel].(*types.Func)
						}
						if fn != nil {
							extra = append(extra, fn)
							continue
						}
					}
					n++
					if len(as.Rhs) == 1 {
						if e, ok := ast.Unparen(as.Rhs[0]).(*ast.IndexExpr); ok && l == as.Lhs[0] {
							ix = e
						}
					}
				}
			}
			return true
		})
		if n != 1 {
			return nil
		}
	}
	if ix == nil {
		return nil
	}
	var lit *ast.CompositeLit
	litInfo := info
	switch t := ast.Unparen(ix.X).(type) {
	case *ast.CompositeLit:
		lit = t
	case *ast.Ident, *ast.SelectorExpr:
		var tv *types.Var
		if id, ok := t.(*ast.Ident); ok {
			tv, _ = info.Uses[id].(*types.Var)
		} else {
			tv, _ = info.Uses[t.(*ast.SelectorExpr).Sel].(*types.Var)
		}
		if tv == nil || tv.Pkg() == nil || tv.Parent() != tv.Pkg().Scope() {
			return nil
		}
		for _, p := range w.ByPath {
			if p.Types != tv.Pkg() {
				continue
			}
			// initialised by a literal and never assigned anywhere in its package
			assigned := false
			for _, file := range p.Syntax {
				ast.Inspect(file, func(m ast.Node) bool {
					switch y := m.(type) {
					case *ast.AssignStmt:
						for _, l := range y.Lhs {
							root := ast.Unparen(l)
							for {
								if e, ok := root.(*ast.IndexExpr); ok {
									root = ast.Unparen(e.X)
									continue
								}
								break
							}
							if id, ok := root.(*ast.Ident); ok && p.TypesInfo.Uses[id] == types.Object(tv) {
								assigned = true
							}
						}
					case *ast.ValueSpec:
						for i, nm := range y.Names {
							if p.TypesInfo.Defs[nm] == types.Object(tv) && i < len(y.Values) {
								if cl, ok := ast.Unparen(y.Values[i]).(*ast.CompositeLit); ok {
									lit, litInfo = cl, p.TypesInfo
								}
							}
						}
					}
					return true
				})
			}
			if assigned {
				return nil
			}
		}
	}
	if lit == nil {
		return nil
	}
	var out []*types.Func
	for _, el := range lit.Elts {
		val := el
		if kv, ok := el.(*ast.KeyValueExpr); ok {
			val = kv.Value
		}
		switch y := ast.Unparen(val).(type) {
		case *ast.Ident:
			if fn, ok := litInfo.Uses[y].(*types.Func); ok {
				out = append(out, fn)
			}
		case *ast.SelectorExpr:
			if fn, ok := litInfo.Uses[y.Sel].(*types.Func); ok {
				out = append(out, fn)
			}
		}
	}
	for _, fn := range extra {
		dup := false
		for _, o := range out {
			if o == fn {
				dup = true
			}
		}
		if !dup {
			out = append(out, fn)
		}
	}
	return out
}

// PkgVarLit: v is a package-level variable initialised by a composite literal (or the address of one) and never
// assigned again anywhere in its package — neither as a whole nor through a field or element, and its address is
// not taken: the literal is what it holds. Returns the literal and the package it is written in.
func (w *World) PkgVarLit(v *types.Var) (*ast.CompositeLit, *packages.Package) {
	if v == nil || v.Pkg() == nil || v.Parent() != v.Pkg().Scope() {
		return nil, nil
	}
	if w.pkgVarLit == nil {
		w.pkgVarLit = map[*types.Var]*pkgVarLitEntry{}
	}
	if e, ok := w.pkgVarLit[v]; ok {
		return e.lit, e.pkg
	}
	e := &pkgVarLitEntry{}
	w.pkgVarLit[v] = e
	var lit *ast.CompositeLit
	var litPkg *packages.Package
	written := false
	for _, p := range w.ByPath {
		if p.Types != v.Pkg() && !v.Exported() {
			continue
		}
		p := p
		rootIs := func(x ast.Expr) bool {
			for {
				switch y := ast.Unparen(x).(type) {
				case *ast.IndexExpr:
					x = y.X
					continue
				case *ast.SelectorExpr:
					if id, ok := ast.Unparen(y.X).(*ast.Ident); ok {
						if _, isPkg := p.TypesInfo.Uses[id].(*types.PkgName); isPkg {
							return p.TypesInfo.Uses[y.Sel] == types.Object(v)
						}
					}
					x = y.X
					continue
				case *ast.StarExpr:
					x = y.X
					continue
				case *ast.Ident:
					return p.TypesInfo.Uses[y] == types.Object(v)
				}
				return false
			}
		}
		for _, file := range p.Syntax {
			ast.Inspect(file, func(m ast.Node) bool {
				switch y := m.(type) {
				case *ast.AssignStmt:
					for _, l := range y.Lhs {
						if rootIs(l) {
							written = true
						}
					}
				case *ast.IncDecStmt:
					if rootIs(y.X) {
						written = true
					}
				case *ast.UnaryExpr:
					if y.Op == token.AND && rootIs(y.X) {
						written = true
					}
				case *ast.ValueSpec:
					for i, nm := range y.Names {
						if p.TypesInfo.Defs[nm] == types.Object(v) && i < len(y.Values) {
							val := ast.Unparen(y.Values[i])
							if u, ok := val.(*ast.UnaryExpr); ok && u.Op == token.AND {
								val = ast.Unparen(u.X)
							}
							if cl, ok := val.(*ast.CompositeLit); ok {
								lit, litPkg = cl, p
							}
						}
					}
				}
				return true
			})
		}
	}
	if lit != nil && !written {
		e.lit, e.pkg = lit, litPkg
	}
	return e.lit, e.pkg
}

type pkgVarLitEntry struct {
	lit *ast.CompositeLit
	pkg *packages.Package
}

// SortedFuncs returns all repo functions in stable order.
func (w *World) SortedFuncs() []*FuncInfo {
	var fs []*FuncInfo
	for _, f := range w.Funcs {
		fs = append(fs, f)
	}
	sort.Slice(fs, func(i, j int) bool {
		if a, b := fs[i].String(), fs[j].String(); a != b {
			return a < b
		}
		return fs[i].Decl.Pos() < fs[j].Decl.Pos()
	})
	return fs
}

// Callers returns the call sites in non-test repo code (or all when tests are loaded) whose callee set contains f.
func (w *World) Callers(f *types.Func) []*CallSite {
	if w.callers == nil {
		w.callers = map[*types.Func][]*CallSite{}
		for _, fi := range w.SortedFuncs() {
			for _, cs := range w.Calls(fi) {
				for _, c := range cs.Callees {
					w.callers[c] = append(w.callers[c], cs)
				}
				if cs.Iface {
					w.callers[cs.Static] = append(w.callers[cs.Static], cs)
				}
			}
		}
	}
	return w.callers[f]
}

// Reach computes the set of repo functions reachable from roots through resolved calls
// (function literals belong to their enclosing function). stop prevents descending into a function.
func (w *World) Reach(roots []*FuncInfo, stop func(*FuncInfo) bool) map[*FuncInfo]bool {
	seen := map[*FuncInfo]bool{}
	var work []*FuncInfo
	for _, r := range roots {
		if r != nil && !seen[r] {
			seen[r] = true
			work = append(work, r)
		}
	}
	for len(work) > 0 {
		f := work[len(work)-1]
		work = work[:len(work)-1]
		if stop != nil && stop(f) {
			continue
		}
		for _, cs := range w.Calls(f) {
			for _, c := range cs.Callees {
				if fi := w.Info(c); fi != nil && !seen[fi] {
					seen[fi] = true
					work = append(work, fi)
				}
			}
		}
		// method values / function references used as values
		ast.Inspect(f.Decl.Body, func(n ast.Node) bool {
			var id *ast.Ident
			switch x := n.(type) {
			case *ast.SelectorExpr:
				id = x.Sel
			case *ast.Ident:
				id = x
			default:
				return true
			}
			if fn, ok := f.Pkg.TypesInfo.Uses[id].(*types.Func); ok {
				if fi := w.Info(fn); fi != nil && !seen[fi] {
					seen[fi] = true
					work = append(work, fi)
				}
			}
			return true
		})
		// (also those held by a package-level literal the function reads, and the implementations of an interface
		// method taken as a value)
		for _, fn := range w.Refs(f) {
			if fi := w.Info(fn); fi != nil && !seen[fi] {
				seen[fi] = true
				work = append(work, fi)
			}
		}
	}
	return seen
}

// Refs: the functions f mentions as values (a function name, a method value, a method expression — not in call
// position): whoever receives the value may call it, which is attributed to f (also in package-level composite
// literals of variables f reads: a struct or table of functions).
func (w *World) Refs(f *FuncInfo) []*types.Func {
	if w.refs == nil {
		w.refs = map[*FuncInfo][]*types.Func{}
	}
	if r, ok := w.refs[f]; ok {
		return r
	}
	w.refs[f] = nil
	var out []*types.Func
	seen := map[*types.Func]bool{}
	var scan func(root ast.Node, info *types.Info, depth int)
	scan = func(root ast.Node, info *types.Info, depth int) {
		called := map[ast.Expr]bool{}
		ast.Inspect(root, func(n ast.Node) bool {
			if c, ok := n.(*ast.CallExpr); ok {
				called[ast.Unparen(c.Fun)] = true
			}
			return true
		})
		ast.Inspect(root, func(n ast.Node) bool {
			var id *ast.Ident
			switch x := n.(type) {
			case *ast.SelectorExpr:
				if called[x] {
					return true
				}
				id = x.Sel
			case *ast.Ident:
				if called[x] {
					return true
				}
				id = x
			default:
				return true
			}
			switch o := info.Uses[id].(type) {
			case *types.Func:
				if !seen[o] {
					seen[o] = true
					out = append(out, o)
					// a method of a repository interface taken as a value: whoever calls it reaches the implementations
					if IsIfaceMethod(o) && o.Pkg() != nil && strings.HasPrefix(o.Pkg().Path(), Module) {
						for _, impl := range w.Impls(o) {
							if !seen[impl] {
								seen[impl] = true
								out = append(out, impl)
							}
						}
					}
				}
			case *types.Var:
				// a package variable holding a literal with functions in it
				if depth < 2 {
					if lit, p := w.PkgVarLit(o); lit != nil {
						scan(lit, p.TypesInfo, depth+1)
					}
				}
			}
			return true
		})
	}
	if f.Decl != nil && f.Decl.Body != nil {
		scan(f.Decl.Body, f.Pkg.TypesInfo, 0)
	}
	w.refs[f] = out
	return out
}

// ValueCall is a call through a struct field that holds function f as a value (`T{run: f}` ... `x.run(..)`).
// Shift is 1 when f was stored as a method expression ((*T).M): the call's first argument is the receiver.
type ValueCall struct {
	Caller *FuncInfo
	Call   *ast.CallExpr
	Shift  int
}

// ValueCallers: the calls, anywhere in the repository, of a struct field into which f is stored by some composite
// literal (field-based: every literal storing f into field F makes every call of an F a possible call of f).
func (w *World) ValueCallers(f *types.Func) []ValueCall {
	if w.valueFields == nil {
		// field -> functions stored into it (with the shift of each), and field -> call sites
		w.valueFields = map[*types.Var]map[*types.Func]int{}
		w.fieldCalls = map[*types.Var][]ValueCall{}
		for _, p := range w.ByPath {
			for _, file := range p.Syntax {
				ast.Inspect(file, func(n ast.Node) bool {
					cl, ok := n.(*ast.CompositeLit)
					if !ok {
						return true
					}
					for _, el := range cl.Elts {
						kv, ok := el.(*ast.KeyValueExpr)
						if !ok {
							continue
						}
						kid, ok := kv.Key.(*ast.Ident)
						if !ok {
							continue
						}
						fld, ok := p.TypesInfo.Uses[kid].(*types.Var)
						if !ok || !fld.IsField() {
							continue
						}
						var fn *types.Func
						shift := 0
						switch v := ast.Unparen(kv.Value).(type) {
						case *ast.Ident:
							fn, _ = p.TypesInfo.Uses[v].(*types.Func)
						case *ast.SelectorExpr:
							fn, _ = p.TypesInfo.Uses[v.Sel].(*types.Func)
							if sel := p.TypesInfo.Selections[v]; sel != nil && sel.Kind() == types.MethodExpr {
								shift = 1
							}
						}
						if fn != nil {
							if w.valueFields[fld] == nil {
								w.valueFields[fld] = map[*types.Func]int{}
							}
							w.valueFields[fld][fn.Origin()] = shift
						}
					}
					return true
				})
			}
		}
		for _, fi := range w.SortedFuncs() {
			if fi.Decl == nil || fi.Decl.Body == nil {
				continue
			}
			fi := fi
			ast.Inspect(fi.Decl.Body, func(n ast.Node) bool {
				c, ok := n.(*ast.CallExpr)
				if !ok {
					return true
				}
				if sel, ok := ast.Unparen(c.Fun).(*ast.SelectorExpr); ok {
					if fld, ok := fi.Pkg.TypesInfo.Uses[sel.Sel].(*types.Var); ok && fld.IsField() && w.valueFields[fld] != nil {
						w.fieldCalls[fld] = append(w.fieldCalls[fld], ValueCall{Caller: fi, Call: c})
					}
				}
				return true
			})
		}
	}
	var out []ValueCall
	for fld, fns := range w.valueFields {
		shift, ok := fns[f.Origin()]
		if !ok {
			// stored as a method of an interface f's type implements (rm.ResourceManager.BranchCommit)
			for stored, sh := range fns {
				if !IsIfaceMethod(stored) || stored.Name() != f.Name() {
					continue
				}
				for _, impl := range w.Impls(stored) {
					if impl.Origin() == f.Origin() {
						shift, ok = sh, true
					}
				}
			}
		}
		if ok {
			for _, vc := range w.fieldCalls[fld] {
				vc.Shift = shift
				out = append(out, vc)
			}
		}
	}
	sort.Slice(out, func(i, j int) bool { return out[i].Call.Pos() < out[j].Call.Pos() })
	return out
}

// CallPath finds a shortest call chain from `from` to a function satisfying target (BFS), at most maxDepth frames.
func (w *World) CallPath(from *FuncInfo, target func(*types.Func) bool, maxDepth int) []string {
	type node struct {
		f    *FuncInfo
		path []string
	}
	seen := map[*FuncInfo]bool{from: true}
	q := []node{{from, []string{ShortKey(from.Obj)}}}
	for len(q) > 0 {
		n := q[0]
		q = q[1:]
		if len(n.path) > maxDepth {
			continue
		}
		for _, cs := range w.Calls(n.f) {
			if target(cs.Static) {
				return append(append([]string{}, n.path...), ShortKey(cs.Static))
			}
			// a call through an interface declared outside the repository (database/sql/driver, getty, ...)
			// goes to the wrapped implementation, not back into repository types that happen to implement it
			if cs.Iface && (cs.Static.Pkg() == nil || !strings.HasPrefix(cs.Static.Pkg().Path(), Module)) {
				continue
			}
			for _, c := range cs.Callees {
				if target(c) {
					return append(append([]string{}, n.path...), ShortKey(c))
				}
				if fi := w.Info(c); fi != nil && !seen[fi] {
					seen[fi] = true
					q = append(q, node{fi, append(append([]string{}, n.path...), ShortKey(c))})
				}
			}
		}
		for _, c := range w.Refs(n.f) {
			if target(c) {
				return append(append([]string{}, n.path...), "value "+ShortKey(c))
			}
			if fi := w.Info(c); fi != nil && !seen[fi] {
				seen[fi] = true
				q = append(q, node{fi, append(append([]string{}, n.path...), "value "+ShortKey(c))})
			}
		}
	}
	return nil
}

// Pos renders a position relative to the repository root.
func (w *World) Pos(p token.Pos) string {
	if !p.IsValid() {
		return "-"
	}
	ps := w.Fset.Position(p)
	rel, err := filepath.Rel(w.Root, ps.Filename)
	if err != nil {
		rel = ps.Filename
	}
	return fmt.Sprintf("%s:%d", rel, ps.Line)
}

// ConstVal returns the constant value of an expression, if any.
func ConstVal(info *types.Info, e ast.Expr) constant.Value {
	if tv, ok := info.Types[e]; ok && tv.Value != nil {
		return tv.Value
	}
	return nil
}

// ConstObj returns the named constant an expression refers to (ident or selector), if any.
func ConstObj(info *types.Info, e ast.Expr) *types.Const {
	switch x := ast.Unparen(e).(type) {
	case *ast.Ident:
		c, _ := info.Uses[x].(*types.Const)
		return c
	case *ast.SelectorExpr:
		c, _ := info.Uses[x.Sel].(*types.Const)
		return c
	}
	return nil
}

// ObjOf returns the object an identifier or selector expression denotes.
func ObjOf(info *types.Info, e ast.Expr) types.Object {
	switch x := ast.Unparen(e).(type) {
	case *ast.Ident:
		if o := info.Uses[x]; o != nil {
			return o
		}
		return info.Defs[x]
	case *ast.SelectorExpr:
		return info.Uses[x.Sel]
	}
	return nil
}

// IsPkgFunc tests whether f is the function pkgPath.name (non-method).
func IsPkgFunc(f *types.Func, pkgPath, name string) bool {
	if f == nil || f.Pkg() == nil {
		return false
	}
	sig := f.Type().(*types.Signature)
	return sig.Recv() == nil && f.Pkg().Path() == pkgPath && f.Name() == name
}

// IsMethod tests whether f is method name of the named type pkgPath.recv (pointer or value receiver, or interface).
func IsMethod(f *types.Func, pkgPath, recv, name string) bool {
	if f == nil || f.Name() != name {
		return false
	}
	sig := f.Type().(*types.Signature)
	if sig.Recv() == nil {
		return false
	}
	t := sig.Recv().Type()
	if p, ok := t.(*types.Pointer); ok {
		t = p.Elem()
	}
	n, ok := t.(*types.Named)
	if !ok || n.Obj().Pkg() == nil {
		return false
	}
	return n.Obj().Pkg().Path() == pkgPath && n.Obj().Name() == recv
}

// RecvNamed returns the named receiver type of a method (nil for functions).
func RecvNamed(f *types.Func) *types.Named {
	sig, _ := f.Type().(*types.Signature)
	if sig == nil || sig.Recv() == nil {
		return nil
	}
	t := sig.Recv().Type()
	if p, ok := t.(*types.Pointer); ok {
		t = p.Elem()
	}
	n, _ := t.(*types.Named)
	return n
}

// HasErrorResult reports whether the signature's last result is error and returns its index.
func HasErrorResult(sig *types.Signature) (int, bool) {
	r := sig.Results()
	if r.Len() == 0 {
		return -1, false
	}
	last := r.At(r.Len() - 1).Type()
	if types.Identical(last, types.Universe.Lookup("error").Type()) {
		return r.Len() - 1, true
	}
	return -1, false
}

// ExprString renders an expression compactly.
func ExprString(e ast.Expr) string { return types.ExprString(e) }

// WriteJSON writes v indented.
func WriteJSON(path string, v interface{}) error {
	if err := os.MkdirAll(filepath.Dir(path), 0o755); err != nil {
		return err
	}
	b, err := json.MarshalIndent(v, "", " ")
	if err != nil {
		return err
	}
	return os.WriteFile(path, append(b, '\n'), 0o644)
}
