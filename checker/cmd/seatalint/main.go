// seatalint decides the structural clauses of properties C01..C20 on /repo's current source.
package main

import (
	"encoding/json"
	"flag"
	"fmt"
	"os"
	"path/filepath"
	"runtime/debug"
	"sort"
	"strings"

	"seatalint/internal/core"
	"seatalint/internal/rules"
)

type edit struct {
	File string `json:"file"` // relative to the repository root
	Old  string `json:"old"`
	New  string `json:"new"`
}

func usage() {
	fmt.Fprintln(os.Stderr, "usage: seatalint check <C01..C20|all> [-tier quick|thorough] [-root /repo] [-verif /verif] [-overlay edits.json]")
	fmt.Fprintln(os.Stderr, "       seatalint list")
	os.Exit(2)
}

func main() {
	debug.SetGCPercent(400)
	if len(os.Args) < 2 {
		usage()
	}
	switch os.Args[1] {
	case "list":
		var ids []string
		for id := range rules.Registry {
			ids = append(ids, id)
		}
		sort.Strings(ids)
		fmt.Println(strings.Join(ids, "\n"))
	case "check":
		if len(os.Args) < 3 {
			usage()
		}
		os.Exit(check(os.Args[2], os.Args[3:]))
	default:
		usage()
	}
}

func check(id string, args []string) (code int) {
	fs := flag.NewFlagSet("check", flag.ExitOnError)
	tier := fs.String("tier", "quick", "quick|thorough")
	root := fs.String("root", "/repo", "repository root")
	verif := fs.String("verif", "/verif", "verif dir (evidence, known findings)")
	overlay := fs.String("overlay", "", "JSON list of {file,old,new} edits analysed in memory instead of the files on disk")
	tests := fs.Bool("tests", false, "load test files too")
	_ = fs.Parse(args)
	if t := os.Getenv("VERIF_TIER"); t != "" && *tier == "" {
		*tier = t
	}
	var ids []string
	if id == "all" {
		for k := range rules.Registry {
			ids = append(ids, k)
		}
		sort.Strings(ids)
	} else {
		if rules.Registry[id] == nil {
			fmt.Printf("unknown property %s\n", id)
			return 2
		}
		ids = []string{id}
	}
	opt := core.LoadOptions{Root: *root, Tests: *tests}
	if *overlay != "" {
		b, err := os.ReadFile(*overlay)
		if err != nil {
			fmt.Println("overlay:", err)
			return 2
		}
		var eds []edit
		if err := json.Unmarshal(b, &eds); err != nil {
			fmt.Println("overlay:", err)
			return 2
		}
		opt.Overlay = map[string][]byte{}
		for _, e := range eds {
			abs := filepath.Join(*root, e.File)
			src, ok := opt.Overlay[abs]
			if !ok {
				src, err = os.ReadFile(abs)
				if err != nil {
					fmt.Println("overlay:", err)
					return 2
				}
			}
			if strings.Count(string(src), e.Old) != 1 {
				fmt.Printf("OVERLAY-NOT-APPLICABLE %s: old text occurs %d times\n", e.File, strings.Count(string(src), e.Old))
				return 3
			}
			opt.Overlay[abs] = []byte(strings.Replace(string(src), e.Old, e.New, 1))
		}
	}
	w, err := core.Load(opt)
	if err != nil {
		// loader failures fail closed for every requested property
		for _, p := range ids {
			path := filepath.Join(*verif, "out", p, "loader.json")
			_ = core.WriteJSON(path, map[string]string{"property": p, "error": err.Error()})
			fmt.Printf("LOADER-FAILED %v\nVIOLATION property=%s replay=%s\n", err, p, path)
		}
		return 1
	}
	worst := 0
	for _, p := range ids {
		c := runOne(p, *tier, *verif, w)
		if c > worst {
			worst = c
		}
	}
	return worst
}

func runOne(p, tier, verif string, w *core.World) (code int) {
	run := core.NewRun(p, tier, verif, w)
	defer func() {
		if r := recover(); r != nil {
			path := filepath.Join(verif, "out", p, "panic.json")
			_ = core.WriteJSON(path, map[string]string{"property": p, "panic": fmt.Sprint(r), "stack": string(debug.Stack())})
			fmt.Printf("CHECKER-PANIC %v\n%s\nVIOLATION property=%s replay=%s\n", r, debug.Stack(), p, path)
			code = 1
		}
	}()
	rules.Registry[p](run)
	return run.Finish()
}
