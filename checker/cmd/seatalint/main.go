// seatalint decides the structural clauses of properties C01..C20 on /repo's current source.
package main

import (
	"encoding/json"
	"flag"
	"fmt"
	"os"
	"os/exec"
	"path/filepath"
	"runtime/debug"
	"sort"
	"strings"
	"sync"

	"seatalint/internal/core"
	"seatalint/internal/rules"
)

type edit struct {
	File string `json:"file"` // relative to the repository root
	Old  string `json:"old"`
	New  string `json:"new"`
	// Occurrence selects the k-th (1-based) occurrence of Old when the text appears more than once
	Occurrence int `json:"occurrence,omitempty"`
}

func usage() {
	fmt.Fprintln(os.Stderr, "usage: seatalint check <C01..C20|all> [-tier quick|thorough] [-root /repo] [-verif /verif] [-overlay edits.json]")
	fmt.Fprintln(os.Stderr, "       seatalint list")
	os.Exit(2)
}

func main() {
	debug.SetGCPercent(400)
	if len(os.Args) < 2 {
		usage()
	}
	switch os.Args[1] {
	case "list":
		var ids []string
		for id := range rules.Registry {
			ids = append(ids, id)
		}
		sort.Strings(ids)
		fmt.Println(strings.Join(ids, "\n"))
	case "check":
		if len(os.Args) < 3 {
			usage()
		}
		os.Exit(check(os.Args[2], os.Args[3:]))
	case "selftest":
		os.Exit(selftest(os.Args[2:]))
	default:
		usage()
	}
}

type mutant struct {
	Property string `json:"property"`
	Expect   string `json:"expect_rule"` // substring that must occur in a VIOLATED/UNDECIDED line; "" with Silent
	Silent   bool   `json:"silent"`      // repaired / behaviour-preserving variant: the check must pass
	Note     string `json:"note"`
	Edits    []edit `json:"edits"`
}

// selftest runs every mutant under <verif>/mutants (optionally only those of one property), one process per
// variant, with evidence redirected to a scratch directory. Exit 0: all as expected; 2: the checker is broken.
func selftest(args []string) int {
	fs := flag.NewFlagSet("selftest", flag.ExitOnError)
	root := fs.String("root", "/repo", "repository root")
	verif := fs.String("verif", "/verif", "verif dir")
	only := fs.String("property", "", "only this property")
	workers := fs.Int("j", 6, "variants checked at a time (one process, one load each)")
	_ = fs.Parse(args)
	files, _ := filepath.Glob(filepath.Join(*verif, "mutants", "*", "*.json"))
	sort.Strings(files)
	self, _ := os.Executable()
	scratch, err := os.MkdirTemp("", "seatalint-selftest")
	if err != nil {
		fmt.Println(err)
		return 2
	}
	defer os.RemoveAll(scratch)
	if b, err := os.ReadFile(filepath.Join(*verif, "known_findings.json")); err == nil {
		_ = os.WriteFile(filepath.Join(scratch, "known_findings.json"), b, 0o644)
	}
	// hand-written tables the rules read from the verif directory
	if specs, _ := filepath.Glob(filepath.Join(*verif, "spec", "*")); len(specs) > 0 {
		_ = os.MkdirAll(filepath.Join(scratch, "spec"), 0o755)
		for _, sf := range specs {
			if b, err := os.ReadFile(sf); err == nil {
				_ = os.WriteFile(filepath.Join(scratch, "spec", filepath.Base(sf)), b, 0o644)
			}
		}
	}
	bad, ran, skipped := 0, 0, 0
	// one process per variant (a fresh load each); several at a time, each worker in its own scratch verif directory
	type job struct {
		idx  int
		f    string
		m    mutant
		name string
	}
	type result struct {
		text          string
		ok, skip, bad bool
	}
	var jobs []job
	for _, f := range files {
		b, err := os.ReadFile(f)
		if err != nil {
			continue
		}
		var m mutant
		if err := json.Unmarshal(b, &m); err != nil {
			fmt.Printf("SELFTEST-FAILED %s: %v\n", f, err)
			bad++
			continue
		}
		if *only != "" && m.Property != *only {
			continue
		}
		jobs = append(jobs, job{len(jobs), f, m, strings.TrimPrefix(f, filepath.Join(*verif, "mutants")+"/")})
	}
	results := make([]result, len(jobs))
	nw := *workers
	if nw < 1 {
		nw = 1
	}
	ch := make(chan job)
	var wg sync.WaitGroup
	for wi := 0; wi < nw; wi++ {
		wdir := filepath.Join(scratch, fmt.Sprintf("w%d", wi))
		_ = os.MkdirAll(wdir, 0o755)
		for _, sub := range []string{"known_findings.json", "spec"} {
			src := filepath.Join(scratch, sub)
			if st, err := os.Stat(src); err == nil {
				if st.IsDir() {
					_ = os.Symlink(src, filepath.Join(wdir, sub))
				} else if b, err := os.ReadFile(src); err == nil {
					_ = os.WriteFile(filepath.Join(wdir, sub), b, 0o644)
				}
			}
		}
		wg.Add(1)
		go func(wdir string) {
			defer wg.Done()
			for jb := range ch {
				m, name := jb.m, jb.name
				ov := filepath.Join(wdir, "ov.json")
				eb, _ := json.Marshal(m.Edits)
				_ = os.WriteFile(ov, eb, 0o644)
				cmd := exec.Command(self, "check", m.Property, "-root", *root, "-verif", wdir, "-overlay", ov)
				out, _ := cmd.CombinedOutput()
				code := cmd.ProcessState.ExitCode()
				var res result
				switch {
				case code == 3:
					res = result{text: fmt.Sprintf("selftest %-60s SKIPPED (the text it edits is not in the current tree)", name), skip: true}
				case m.Silent && code == 0:
					res = result{text: fmt.Sprintf("selftest %-60s ok (silent as expected)", name), ok: true}
				case m.Silent:
					res = result{text: fmt.Sprintf("SELFTEST-FAILED %s: a variant on which the property holds raised an alarm\n%s", name, firstLines(string(out), "VIOLATED", "UNDECIDED", "LOADER")), bad: true}
				case code == 1 && fired(string(out), m.Expect):
					res = result{text: fmt.Sprintf("selftest %-60s ok (reported %s)", name, m.Expect), ok: true}
				default:
					res = result{text: fmt.Sprintf("SELFTEST-FAILED %s: expected a report of %s, exit=%d\n%s", name, m.Expect, code, firstLines(string(out), "VIOLATED", "UNDECIDED", "LOADER", "==")), bad: true}
				}
				results[jb.idx] = res
			}
		}(wdir)
	}
	for _, jb := range jobs {
		ch <- jb
	}
	close(ch)
	wg.Wait()
	for _, res := range results {
		fmt.Println(res.text)
		switch {
		case res.ok:
			ran++
		case res.skip:
			skipped++
		case res.bad:
			bad++
		}
	}
	fmt.Printf("selftest: %d variants behaved as expected, %d skipped, %d failed\n", ran, skipped, bad)
	if bad > 0 {
		return 2
	}
	return 0
}

func fired(out, expect string) bool {
	for _, l := range strings.Split(out, "\n") {
		if (strings.HasPrefix(l, "VIOLATED") || strings.HasPrefix(l, "UNDECIDED")) && strings.Contains(l, expect) {
			return true
		}
	}
	return false
}

func firstLines(out string, prefixes ...string) string {
	var keep []string
	for _, l := range strings.Split(out, "\n") {
		for _, p := range prefixes {
			if strings.HasPrefix(l, p) {
				if len(l) > 300 {
					l = l[:300]
				}
				keep = append(keep, "    "+l)
				break
			}
		}
	}
	if len(keep) > 12 {
		keep = keep[:12]
	}
	return strings.Join(keep, "\n")
}

func check(id string, args []string) (code int) {
	fs := flag.NewFlagSet("check", flag.ExitOnError)
	tier := fs.String("tier", "quick", "quick|thorough")
	root := fs.String("root", "/repo", "repository root")
	verif := fs.String("verif", "/verif", "verif dir (evidence, known findings)")
	overlay := fs.String("overlay", "", "JSON list of {file,old,new} edits analysed in memory instead of the files on disk")
	tests := fs.Bool("tests", false, "load test files too")
	_ = fs.Parse(args)
	if t := os.Getenv("VERIF_TIER"); t != "" && *tier == "" {
		*tier = t
	}
	var ids []string
	if id == "all" {
		for k := range rules.Registry {
			ids = append(ids, k)
		}
		sort.Strings(ids)
	} else {
		if rules.Registry[id] == nil {
			fmt.Printf("unknown property %s\n", id)
			return 2
		}
		ids = []string{id}
	}
	opt := core.LoadOptions{Root: *root, Tests: *tests}
	if *overlay != "" {
		b, err := os.ReadFile(*overlay)
		if err != nil {
			fmt.Println("overlay:", err)
			return 2
		}
		var eds []edit
		if err := json.Unmarshal(b, &eds); err != nil {
			fmt.Println("overlay:", err)
			return 2
		}
		opt.Overlay = map[string][]byte{}
		for _, e := range eds {
			abs := filepath.Join(*root, e.File)
			src, ok := opt.Overlay[abs]
			if !ok {
				src, err = os.ReadFile(abs)
				if err != nil {
					if os.IsNotExist(err) && e.Old == "" {
						// a file the variant adds
						opt.Overlay[abs] = []byte(e.New)
						continue
					}
					fmt.Println("overlay:", err)
					return 2
				}
			}
			cnt := strings.Count(string(src), e.Old)
			if e.Occurrence > 0 && e.Occurrence <= cnt {
				// the k-th occurrence (two statement entries with the same text)
				idx, from := -1, 0
				for k := 0; k < e.Occurrence; k++ {
					j := strings.Index(string(src)[from:], e.Old)
					idx = from + j
					from = idx + len(e.Old)
				}
				opt.Overlay[abs] = []byte(string(src)[:idx] + e.New + string(src)[idx+len(e.Old):])
				continue
			}
			if cnt != 1 {
				fmt.Printf("OVERLAY-NOT-APPLICABLE %s: old text occurs %d times\n", e.File, cnt)
				return 3
			}
			opt.Overlay[abs] = []byte(strings.Replace(string(src), e.Old, e.New, 1))
		}
	}
	w, err := core.Load(opt)
	if err != nil {
		// loader failures fail closed for every requested property
		for _, p := range ids {
			path := filepath.Join(*verif, "out", p, "loader.json")
			_ = core.WriteJSON(path, map[string]string{"property": p, "error": err.Error()})
			fmt.Printf("LOADER-FAILED %v\nVIOLATION property=%s replay=%s\n", err, p, path)
		}
		return 1
	}
	worst := 0
	for _, p := range ids {
		c := runOne(p, *tier, *verif, w, nil)
		if c > worst {
			worst = c
		}
	}
	if *tier != "thorough" || *overlay != "" {
		return worst
	}
	// ---- thorough tier: (1) a second load that includes the test files and a GOARCH=386 load of the non-test
	// sources must type-check (what the build covers: test variants, files behind build tags, int-size
	// assumptions); the rules themselves run on the plain load, because a package's test variant is a separate
	// type-checked package whose named types are not identical to the ones its importers see; (2) the checker's
	// self-test for the property: every breaking variant must be reported, every repaired variant must be silent.
	w2, err := core.Load(core.LoadOptions{Root: *root, Tests: true})
	if err == nil {
		// non-test sources must also type-check for a 32-bit target (files behind build tags, int-size assumptions)
		_, err = core.Load(core.LoadOptions{Root: *root, Env: []string{"GOARCH=386"}})
	}
	if err != nil {
		for _, p := range ids {
			path := filepath.Join(*verif, "out", p, "loader-thorough.json")
			_ = core.WriteJSON(path, map[string]string{"property": p, "error": err.Error()})
			fmt.Printf("LOADER-FAILED (second load with tests / GOARCH=386 load) %v\nVIOLATION property=%s replay=%s\n", err, p, path)
		}
		return 1
	}
	self, _ := os.Executable()
	for _, p := range ids {
		extra := map[string]interface{}{}
		// self-test first so that its tally lands in the evidence written by the final run
		cmd := exec.Command(self, "selftest", "-root", *root, "-verif", *verif, "-property", p)
		out, _ := cmd.CombinedOutput()
		lines := strings.Split(strings.TrimSpace(string(out)), "\n")
		tally := lines[len(lines)-1]
		extra["selftest"] = tally
		var failed []string
		for _, l := range lines {
			if strings.HasPrefix(l, "SELFTEST-FAILED") {
				failed = append(failed, l)
			}
		}
		fmt.Printf("== %s thorough: %s\n", p, tally)
		if cmd.ProcessState.ExitCode() != 0 {
			for _, l := range failed {
				fmt.Println(l)
			}
			fmt.Printf("the checker's self-test failed for %s: the rules themselves are broken; no verdict about /repo is given\n", p)
			if worst < 2 {
				worst = 2
			}
		}
		extra["second_load"] = fmt.Sprintf("type-checked with test files: packages=%d functions=%d; GOARCH=386 load of the non-test sources type-checked", len(w2.Pkgs), len(w2.Funcs))
		c := runOne(p, *tier, *verif, w, extra)
		if c > worst {
			worst = c
		}
	}
	return worst
}

func runOne(p, tier, verif string, w *core.World, extra map[string]interface{}) (code int) {
	run := core.NewRun(p, tier, verif, w)
	for k, v := range extra {
		run.Extra[k] = v
	}
	defer func() {
		if r := recover(); r != nil {
			path := filepath.Join(verif, "out", p, "panic.json")
			_ = core.WriteJSON(path, map[string]string{"property": p, "panic": fmt.Sprint(r), "stack": string(debug.Stack())})
			fmt.Printf("CHECKER-PANIC %v\n%s\nVIOLATION property=%s replay=%s\n", r, debug.Stack(), p, path)
			code = 1
		}
	}()
	rules.Registry[p](run)
	return run.Finish()
}
