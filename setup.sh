#!/bin/sh
# Builds the checker offline from /verif/checker (module cache only).
set -e
cd "$(dirname "$0")/checker"
export GOFLAGS=-mod=mod GOPROXY=off GOSUMDB=off GOTOOLCHAIN=local
unset GOWORK
mkdir -p ../bin
go build -o ../bin/seatalint ./cmd/seatalint
echo "built $(cd .. && pwd)/bin/seatalint"
